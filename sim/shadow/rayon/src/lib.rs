//! A stand-in for the `rayon` crate inside the ragc simulator.
//!
//! ragc itself uses `slice.par_iter().map(f).collect::<Vec<_>>()`,
//! `vec.into_par_iter().filter_map(f).collect::<Vec<_>>()`, `rayon::current_num_threads()` and
//! `ThreadPoolBuilder::new().num_threads(n).build_global()`; the shim covers the commonly used
//! part of rayon's API beyond that (ranges, chunks, mutable iteration, the usual adaptors and
//! consumers, `join`, `scope`, parallel sorts) so that a change to ragc which reaches for another
//! rayon call still builds inside the simulator.
//!
//! Execution model: every stage that calls user code (`map`, `filter`, `filter_map`, `flat_map`,
//! `for_each`, `join`, `scope` ...) runs its items on `pool` shuttle tasks — the caller plus
//! `pool - 1` scoped helpers — that claim item indices from a shared atomic counter (every claim
//! is a scheduling point of the simulator) and store each result in the slot of its index; the
//! next stage reads the slots in index order, which is the contract of rayon's indexed
//! iterators. Which task computes which item, and in which order the closures run, is decided by
//! the harness's scheduler and is therefore replayable. Reductions (`sum`, `reduce`, `fold`,
//! `min`, `max` ...) combine the per-item results in index order: one of the results rayon may
//! produce for an associative operation. Outside a simulated execution, or with a pool of one,
//! everything runs sequentially on the caller.

use std::cell::Cell;
use std::sync::atomic::{AtomicU64, Ordering as StdOrdering};

thread_local! {
    /// pool size chosen by the harness for the current run (0 = not set)
    static POOL_OVERRIDE: Cell<usize> = const { Cell::new(0) };
    /// pool size requested through ThreadPoolBuilder::build_global (0 = not set)
    static POOL_GLOBAL: Cell<usize> = const { Cell::new(0) };
    /// pool size of the innermost ThreadPool::install (0 = none)
    static POOL_INSTALLED: Cell<usize> = const { Cell::new(0) };
}

/// number of parallel sections in flight in the current run: a parallel call made from inside a
/// pool task (nested parallelism) runs sequentially on that task - rayon would run it on the same
/// pool, and spawning scoped tasks from a scoped task is not something the simulator needs.
/// Reset by `verif::set_pool` at the start of every run (a run that was aborted in the middle of a
/// section never decrements).
static SECTIONS_IN_FLIGHT: std::sync::atomic::AtomicUsize = std::sync::atomic::AtomicUsize::new(0);

struct SectionGuard;
impl Drop for SectionGuard {
    fn drop(&mut self) {
        SECTIONS_IN_FLIGHT.fetch_sub(1, StdOrdering::Relaxed);
    }
}

/// statistics for the evidence files (process-wide, std atomics: no scheduling points)
pub static PAR_CALLS: AtomicU64 = AtomicU64::new(0);
pub static PAR_CALLS_PARALLEL: AtomicU64 = AtomicU64::new(0);
pub static PAR_ITEMS: AtomicU64 = AtomicU64::new(0);
pub static PAR_ITEMS_BY_HELPERS: AtomicU64 = AtomicU64::new(0);

/// per-run probe sink installed by the harness (name, amount)
static PROBE_HOOK: std::sync::OnceLock<fn(&'static str, u64)> = std::sync::OnceLock::new();

fn probe(name: &'static str, n: u64) {
    if let Some(h) = PROBE_HOOK.get() {
        h(name, n);
    }
}

pub mod verif {
    pub fn set_probe_hook(h: fn(&'static str, u64)) {
        let _ = super::PROBE_HOOK.set(h);
    }
    /// Set the pool size for runs on this OS thread (0 = fall back to build_global / 1).
    pub fn set_pool(n: usize) {
        super::POOL_OVERRIDE.with(|c| c.set(n));
        super::POOL_GLOBAL.with(|c| c.set(0));
        super::POOL_INSTALLED.with(|c| c.set(0));
        super::SECTIONS_IN_FLIGHT.store(0, std::sync::atomic::Ordering::Relaxed);
    }
    pub fn stats() -> (u64, u64, u64, u64) {
        use std::sync::atomic::Ordering::Relaxed;
        (
            super::PAR_CALLS.load(Relaxed),
            super::PAR_CALLS_PARALLEL.load(Relaxed),
            super::PAR_ITEMS.load(Relaxed),
            super::PAR_ITEMS_BY_HELPERS.load(Relaxed),
        )
    }
}

pub fn current_num_threads() -> usize {
    let i = POOL_INSTALLED.with(|c| c.get());
    if i > 0 {
        return i;
    }
    let o = POOL_OVERRIDE.with(|c| c.get());
    if o > 0 {
        return o;
    }
    let g = POOL_GLOBAL.with(|c| c.get());
    if g > 0 {
        return g;
    }
    1
}

pub fn current_thread_index() -> Option<usize> {
    None
}

pub fn max_num_threads() -> usize {
    usize::MAX >> 8
}

#[derive(Debug)]
pub struct ThreadPoolBuildError;

impl std::fmt::Display for ThreadPoolBuildError {
    fn fmt(&self, f: &mut std::fmt::Formatter<'_>) -> std::fmt::Result {
        write!(f, "the global thread pool has already been initialized")
    }
}

impl std::error::Error for ThreadPoolBuildError {}

#[derive(Default)]
pub struct ThreadPoolBuilder {
    n: usize,
}

impl ThreadPoolBuilder {
    pub fn new() -> Self {
        ThreadPoolBuilder { n: 0 }
    }
    pub fn num_threads(mut self, n: usize) -> Self {
        self.n = n;
        self
    }
    pub fn thread_name<F: FnMut(usize) -> String + 'static>(self, _f: F) -> Self {
        self
    }
    pub fn stack_size(self, _n: usize) -> Self {
        self
    }
    pub fn build_global(self) -> Result<(), ThreadPoolBuildError> {
        POOL_GLOBAL.with(|c| c.set(self.n));
        Ok(())
    }
    pub fn build(self) -> Result<ThreadPool, ThreadPoolBuildError> {
        Ok(ThreadPool { n: if self.n == 0 { current_num_threads() } else { self.n } })
    }
}

pub struct ThreadPool {
    n: usize,
}

impl ThreadPool {
    pub fn install<R: Send, F: FnOnce() -> R + Send>(&self, f: F) -> R {
        let prev = POOL_INSTALLED.with(|c| c.replace(self.n));
        let r = f();
        POOL_INSTALLED.with(|c| c.set(prev));
        r
    }
    pub fn current_num_threads(&self) -> usize {
        self.n
    }
    pub fn join<A, B, RA, RB>(&self, a: A, b: B) -> (RA, RB)
    where
        A: FnOnce() -> RA + Send,
        B: FnOnce() -> RB + Send,
        RA: Send,
        RB: Send,
    {
        self.install(|| join(a, b))
    }
}

fn in_simulation() -> bool {
    shuttle::current::get_current_task().is_some()
}

/// Apply `f` to every item; results in item order.
fn run_indexed<T, U, F>(items: Vec<T>, f: &F) -> Vec<U>
where
    T: Send,
    U: Send,
    F: Fn(T) -> U + Sync,
{
    let n = items.len();
    PAR_CALLS.fetch_add(1, StdOrdering::Relaxed);
    PAR_ITEMS.fetch_add(n as u64, StdOrdering::Relaxed);
    let pool = current_num_threads().min(n);
    if pool <= 1 || !in_simulation() {
        return items.into_iter().map(f).collect();
    }
    if SECTIONS_IN_FLIGHT.fetch_add(1, StdOrdering::Relaxed) > 0 {
        // nested: run on the calling task
        let _g = SectionGuard;
        probe("rayon_nested_sections_run_inline", 1);
        return items.into_iter().map(f).collect();
    }
    let _g = SectionGuard;
    PAR_CALLS_PARALLEL.fetch_add(1, StdOrdering::Relaxed);
    probe("rayon_parallel_maps", 1);
    probe("rayon_parallel_items", n as u64);
    use shuttle::sync::atomic::{AtomicUsize, Ordering};
    // each slot is touched by exactly one task (the one that claimed its index): the std mutexes
    // are never contended and never held across a scheduling point
    let inputs: Vec<std::sync::Mutex<Option<T>>> = items.into_iter().map(|t| std::sync::Mutex::new(Some(t))).collect();
    let outputs: Vec<std::sync::Mutex<Option<U>>> = (0..n).map(|_| std::sync::Mutex::new(None)).collect();
    let next = AtomicUsize::new(0);
    let work = |helper: bool| loop {
        let i = next.fetch_add(1, Ordering::SeqCst);
        if i >= n {
            break;
        }
        let item = inputs[i].lock().unwrap().take().expect("item claimed twice");
        let out = f(item);
        *outputs[i].lock().unwrap() = Some(out);
        if helper {
            PAR_ITEMS_BY_HELPERS.fetch_add(1, StdOrdering::Relaxed);
            probe("rayon_items_run_by_helper_tasks", 1);
        }
    };
    shuttle::thread::scope(|s| {
        for _ in 1..pool {
            s.spawn(|| work(true));
        }
        work(false);
    });
    outputs
        .into_iter()
        .map(|m| m.into_inner().unwrap().expect("item without result"))
        .collect()
}

/// `rayon::join`: both closures run, possibly on two tasks.
pub fn join<A, B, RA, RB>(a: A, b: B) -> (RA, RB)
where
    A: FnOnce() -> RA + Send,
    B: FnOnce() -> RB + Send,
    RA: Send,
    RB: Send,
{
    if current_num_threads() <= 1 || !in_simulation() || SECTIONS_IN_FLIGHT.load(StdOrdering::Relaxed) > 0 {
        let ra = a();
        let rb = b();
        return (ra, rb);
    }
    SECTIONS_IN_FLIGHT.fetch_add(1, StdOrdering::Relaxed);
    let _g = SectionGuard;
    probe("rayon_joins", 1);
    let mut rb = None;
    let ra = shuttle::thread::scope(|s| {
        let h = s.spawn(b);
        let ra = a();
        rb = Some(h.join().expect("rayon::join: task panicked"));
        ra
    });
    (ra, rb.unwrap())
}

/// `rayon::scope`: spawned closures run as tasks and are joined before `scope` returns.
pub struct Scope<'scope> {
    jobs: std::sync::Mutex<Vec<Box<dyn FnOnce(&Scope<'scope>) + Send + 'scope>>>,
}

impl<'scope> Scope<'scope> {
    pub fn spawn<F: FnOnce(&Scope<'scope>) + Send + 'scope>(&self, f: F) {
        self.jobs.lock().unwrap().push(Box::new(f));
    }
}

pub fn scope<'scope, F, R>(f: F) -> R
where
    F: FnOnce(&Scope<'scope>) -> R,
{
    let s = Scope { jobs: std::sync::Mutex::new(Vec::new()) };
    let r = f(&s);
    // jobs may spawn further jobs: run in rounds, each round in parallel
    loop {
        let jobs: Vec<_> = std::mem::take(&mut *s.jobs.lock().unwrap());
        if jobs.is_empty() {
            break;
        }
        struct SendPtr<T>(*const T);
        unsafe impl<T> Send for SendPtr<T> {}
        unsafe impl<T> Sync for SendPtr<T> {}
        let sp = SendPtr(&s as *const Scope<'scope>);
        let spr = &sp;
        run_indexed(jobs, &move |job: Box<dyn FnOnce(&Scope<'scope>) + Send + 'scope>| {
            // SAFETY: `s` outlives this call; Scope only hands out &self
            job(unsafe { &*spr.0 })
        });
    }
    r
}

pub fn spawn<F: FnOnce() + Send + 'static>(f: F) {
    f()
}

pub mod iter {
    use super::run_indexed;
    use std::collections::{BTreeMap, BTreeSet, HashMap, HashSet};

    pub trait ParallelIterator: Sized {
        type Item: Send;
        /// evaluate the pipeline; results in the order of the underlying sequence
        fn drive(self) -> Vec<Self::Item>;

        fn map<F, U>(self, f: F) -> Map<Self, F>
        where
            F: Fn(Self::Item) -> U + Sync + Send,
            U: Send,
        {
            Map { base: self, f }
        }
        fn map_with<T, F, U>(self, init: T, f: F) -> Done<U>
        where
            T: Send + Clone,
            F: Fn(&mut T, Self::Item) -> U + Sync + Send,
            U: Send,
        {
            let mut t = init;
            Done { items: self.drive().into_iter().map(|x| f(&mut t, x)).collect() }
        }
        fn map_init<I, T, F, U>(self, init: I, f: F) -> Done<U>
        where
            I: Fn() -> T + Sync + Send,
            F: Fn(&mut T, Self::Item) -> U + Sync + Send,
            U: Send,
        {
            let mut t = init();
            Done { items: self.drive().into_iter().map(|x| f(&mut t, x)).collect() }
        }
        fn filter<F>(self, f: F) -> Filter<Self, F>
        where
            F: Fn(&Self::Item) -> bool + Sync + Send,
        {
            Filter { base: self, f }
        }
        fn filter_map<F, U>(self, f: F) -> FilterMap<Self, F>
        where
            F: Fn(Self::Item) -> Option<U> + Sync + Send,
            U: Send,
        {
            FilterMap { base: self, f }
        }
        fn flat_map<F, PI>(self, f: F) -> Done<PI::Item>
        where
            F: Fn(Self::Item) -> PI + Sync + Send,
            PI: IntoParallelIterator,
            PI::Item: Send,
        {
            let parts: Vec<Vec<PI::Item>> = run_indexed(self.drive(), &|x| f(x).into_par_iter().drive());
            Done { items: parts.into_iter().flatten().collect() }
        }
        fn flat_map_iter<F, SI>(self, f: F) -> Done<SI::Item>
        where
            F: Fn(Self::Item) -> SI + Sync + Send,
            SI: IntoIterator,
            SI::Item: Send,
        {
            let parts: Vec<Vec<SI::Item>> = run_indexed(self.drive(), &|x| f(x).into_iter().collect());
            Done { items: parts.into_iter().flatten().collect() }
        }
        fn flatten(self) -> Done<<Self::Item as IntoParallelIterator>::Item>
        where
            Self::Item: IntoParallelIterator,
        {
            Done { items: self.drive().into_iter().flat_map(|x| x.into_par_iter().drive()).collect() }
        }
        fn flatten_iter(self) -> Done<<Self::Item as IntoIterator>::Item>
        where
            Self::Item: IntoIterator,
            <Self::Item as IntoIterator>::Item: Send,
        {
            Done { items: self.drive().into_iter().flatten().collect() }
        }
        fn inspect<F>(self, f: F) -> Done<Self::Item>
        where
            F: Fn(&Self::Item) + Sync + Send,
        {
            Done {
                items: run_indexed(self.drive(), &|x| {
                    f(&x);
                    x
                }),
            }
        }
        fn enumerate(self) -> Done<(usize, Self::Item)> {
            Done { items: self.drive().into_iter().enumerate().collect() }
        }
        fn zip<Z>(self, other: Z) -> Done<(Self::Item, Z::Item)>
        where
            Z: IntoParallelIterator,
        {
            Done { items: self.drive().into_iter().zip(other.into_par_iter().drive()).collect() }
        }
        fn chain<C>(self, other: C) -> Done<Self::Item>
        where
            C: IntoParallelIterator<Item = Self::Item>,
        {
            let mut v = self.drive();
            v.extend(other.into_par_iter().drive());
            Done { items: v }
        }
        fn cloned<'a, T>(self) -> Done<T>
        where
            T: 'a + Clone + Send + Sync,
            Self: ParallelIterator<Item = &'a T>,
        {
            Done { items: self.drive().into_iter().cloned().collect() }
        }
        fn copied<'a, T>(self) -> Done<T>
        where
            T: 'a + Copy + Send + Sync,
            Self: ParallelIterator<Item = &'a T>,
        {
            Done { items: self.drive().into_iter().copied().collect() }
        }
        fn rev(self) -> Done<Self::Item> {
            let mut v = self.drive();
            v.reverse();
            Done { items: v }
        }
        fn skip(self, n: usize) -> Done<Self::Item> {
            Done { items: self.drive().into_iter().skip(n).collect() }
        }
        fn take(self, n: usize) -> Done<Self::Item> {
            Done { items: self.drive().into_iter().take(n).collect() }
        }
        fn step_by(self, n: usize) -> Done<Self::Item> {
            Done { items: self.drive().into_iter().step_by(n).collect() }
        }
        fn chunks(self, n: usize) -> Done<Vec<Self::Item>> {
            let mut out = Vec::new();
            let mut cur = Vec::new();
            for x in self.drive() {
                cur.push(x);
                if cur.len() == n {
                    out.push(std::mem::take(&mut cur));
                }
            }
            if !cur.is_empty() {
                out.push(cur);
            }
            Done { items: out }
        }
        fn with_min_len(self, _n: usize) -> Self {
            self
        }
        fn with_max_len(self, _n: usize) -> Self {
            self
        }
        fn fold<T, ID, F>(self, identity: ID, f: F) -> Done<T>
        where
            T: Send,
            ID: Fn() -> T + Sync + Send,
            F: Fn(T, Self::Item) -> T + Sync + Send,
        {
            Done { items: vec![self.drive().into_iter().fold(identity(), f)] }
        }
        fn fold_with<T, F>(self, init: T, f: F) -> Done<T>
        where
            T: Send + Clone,
            F: Fn(T, Self::Item) -> T + Sync + Send,
        {
            Done { items: vec![self.drive().into_iter().fold(init, f)] }
        }

        // ---- consumers
        fn for_each<F>(self, f: F)
        where
            F: Fn(Self::Item) + Sync + Send,
        {
            run_indexed(self.drive(), &|x| f(x));
        }
        fn for_each_with<T, F>(self, init: T, f: F)
        where
            T: Send + Clone,
            F: Fn(&mut T, Self::Item) + Sync + Send,
        {
            let mut t = init;
            for x in self.drive() {
                f(&mut t, x);
            }
        }
        fn try_for_each<F, E>(self, f: F) -> Result<(), E>
        where
            F: Fn(Self::Item) -> Result<(), E> + Sync + Send,
            E: Send,
        {
            for r in run_indexed(self.drive(), &|x| f(x)) {
                r?;
            }
            Ok(())
        }
        fn collect<C: FromIterator<Self::Item>>(self) -> C {
            self.drive().into_iter().collect()
        }
        fn collect_into_vec(self, target: &mut Vec<Self::Item>) {
            *target = self.drive();
        }
        fn unzip<A, B, FA, FB>(self) -> (FA, FB)
        where
            Self: ParallelIterator<Item = (A, B)>,
            FA: Default + Extend<A>,
            FB: Default + Extend<B>,
            A: Send,
            B: Send,
        {
            self.drive().into_iter().unzip()
        }
        fn partition<A, B, P>(self, p: P) -> (A, B)
        where
            A: Default + Extend<Self::Item>,
            B: Default + Extend<Self::Item>,
            P: Fn(&Self::Item) -> bool + Sync + Send,
        {
            let (mut a, mut b) = (A::default(), B::default());
            for x in self.drive() {
                if p(&x) {
                    a.extend(std::iter::once(x));
                } else {
                    b.extend(std::iter::once(x));
                }
            }
            (a, b)
        }
        fn count(self) -> usize {
            self.drive().len()
        }
        fn sum<S>(self) -> S
        where
            S: Send + std::iter::Sum<Self::Item>,
        {
            self.drive().into_iter().sum()
        }
        fn product<P>(self) -> P
        where
            P: Send + std::iter::Product<Self::Item>,
        {
            self.drive().into_iter().product()
        }
        fn reduce<ID, OP>(self, identity: ID, op: OP) -> Self::Item
        where
            ID: Fn() -> Self::Item + Sync + Send,
            OP: Fn(Self::Item, Self::Item) -> Self::Item + Sync + Send,
        {
            self.drive().into_iter().fold(identity(), op)
        }
        fn reduce_with<OP>(self, op: OP) -> Option<Self::Item>
        where
            OP: Fn(Self::Item, Self::Item) -> Self::Item + Sync + Send,
        {
            self.drive().into_iter().reduce(op)
        }
        fn min(self) -> Option<Self::Item>
        where
            Self::Item: Ord,
        {
            self.drive().into_iter().min()
        }
        fn max(self) -> Option<Self::Item>
        where
            Self::Item: Ord,
        {
            self.drive().into_iter().max()
        }
        fn min_by_key<K: Ord + Send, F: Fn(&Self::Item) -> K + Sync + Send>(self, f: F) -> Option<Self::Item> {
            self.drive().into_iter().min_by_key(f)
        }
        fn max_by_key<K: Ord + Send, F: Fn(&Self::Item) -> K + Sync + Send>(self, f: F) -> Option<Self::Item> {
            self.drive().into_iter().max_by_key(f)
        }
        fn min_by<F: Fn(&Self::Item, &Self::Item) -> std::cmp::Ordering + Sync + Send>(self, f: F) -> Option<Self::Item> {
            self.drive().into_iter().min_by(f)
        }
        fn max_by<F: Fn(&Self::Item, &Self::Item) -> std::cmp::Ordering + Sync + Send>(self, f: F) -> Option<Self::Item> {
            self.drive().into_iter().max_by(f)
        }
        fn any<P: Fn(Self::Item) -> bool + Sync + Send>(self, p: P) -> bool {
            run_indexed(self.drive(), &|x| p(x)).into_iter().any(|b| b)
        }
        fn all<P: Fn(Self::Item) -> bool + Sync + Send>(self, p: P) -> bool {
            run_indexed(self.drive(), &|x| p(x)).into_iter().all(|b| b)
        }
        fn find_any<P: Fn(&Self::Item) -> bool + Sync + Send>(self, p: P) -> Option<Self::Item> {
            self.drive().into_iter().find(|x| p(x))
        }
        fn find_first<P: Fn(&Self::Item) -> bool + Sync + Send>(self, p: P) -> Option<Self::Item> {
            self.drive().into_iter().find(|x| p(x))
        }
        fn find_last<P: Fn(&Self::Item) -> bool + Sync + Send>(self, p: P) -> Option<Self::Item> {
            self.drive().into_iter().rev().find(|x| p(x))
        }
        fn position_any<P: Fn(Self::Item) -> bool + Sync + Send>(self, p: P) -> Option<usize> {
            self.drive().into_iter().position(p)
        }
        fn position_first<P: Fn(Self::Item) -> bool + Sync + Send>(self, p: P) -> Option<usize> {
            self.drive().into_iter().position(p)
        }
        fn len(&self) -> usize
        where
            Self: Clone,
        {
            self.clone().drive().len()
        }
    }

    /// rayon distinguishes indexed iterators; here every iterator is materialised in order
    pub trait IndexedParallelIterator: ParallelIterator {}
    impl<P: ParallelIterator> IndexedParallelIterator for P {}

    /// a materialised stage
    pub struct Done<T> {
        items: Vec<T>,
    }

    impl<T: Send> ParallelIterator for Done<T> {
        type Item = T;
        fn drive(self) -> Vec<T> {
            self.items
        }
    }

    pub type VecIter<T> = Done<T>;

    pub struct Map<I, F> {
        base: I,
        f: F,
    }

    impl<I, F, U> ParallelIterator for Map<I, F>
    where
        I: ParallelIterator,
        F: Fn(I::Item) -> U + Sync + Send,
        U: Send,
    {
        type Item = U;
        fn drive(self) -> Vec<U> {
            run_indexed(self.base.drive(), &self.f)
        }
    }

    pub struct Filter<I, F> {
        base: I,
        f: F,
    }

    impl<I, F> ParallelIterator for Filter<I, F>
    where
        I: ParallelIterator,
        F: Fn(&I::Item) -> bool + Sync + Send,
    {
        type Item = I::Item;
        fn drive(self) -> Vec<I::Item> {
            let f = &self.f;
            run_indexed(self.base.drive(), &|x| if f(&x) { Some(x) } else { None }).into_iter().flatten().collect()
        }
    }

    pub struct FilterMap<I, F> {
        base: I,
        f: F,
    }

    impl<I, F, U> ParallelIterator for FilterMap<I, F>
    where
        I: ParallelIterator,
        F: Fn(I::Item) -> Option<U> + Sync + Send,
        U: Send,
    {
        type Item = U;
        fn drive(self) -> Vec<U> {
            run_indexed(self.base.drive(), &self.f).into_iter().flatten().collect()
        }
    }

    pub trait IntoParallelIterator {
        type Item: Send;
        type Iter: ParallelIterator<Item = Self::Item>;
        fn into_par_iter(self) -> Self::Iter;
    }

    impl<T: Send> IntoParallelIterator for Done<T> {
        type Item = T;
        type Iter = Done<T>;
        fn into_par_iter(self) -> Done<T> {
            self
        }
    }

    impl<I, F, U> IntoParallelIterator for Map<I, F>
    where
        I: ParallelIterator,
        F: Fn(I::Item) -> U + Sync + Send,
        U: Send,
    {
        type Item = U;
        type Iter = Self;
        fn into_par_iter(self) -> Self {
            self
        }
    }

    impl<T: Send> IntoParallelIterator for Vec<T> {
        type Item = T;
        type Iter = Done<T>;
        fn into_par_iter(self) -> Done<T> {
            Done { items: self }
        }
    }

    impl<T: Send> IntoParallelIterator for Option<T> {
        type Item = T;
        type Iter = Done<T>;
        fn into_par_iter(self) -> Done<T> {
            Done { items: self.into_iter().collect() }
        }
    }

    impl<'a, T: Sync + 'a> IntoParallelIterator for &'a Vec<T> {
        type Item = &'a T;
        type Iter = Done<&'a T>;
        fn into_par_iter(self) -> Done<&'a T> {
            Done { items: self.iter().collect() }
        }
    }

    impl<'a, T: Sync + 'a> IntoParallelIterator for &'a [T] {
        type Item = &'a T;
        type Iter = Done<&'a T>;
        fn into_par_iter(self) -> Done<&'a T> {
            Done { items: self.iter().collect() }
        }
    }

    impl<'a, T: Send + 'a> IntoParallelIterator for &'a mut Vec<T> {
        type Item = &'a mut T;
        type Iter = Done<&'a mut T>;
        fn into_par_iter(self) -> Done<&'a mut T> {
            Done { items: self.iter_mut().collect() }
        }
    }

    impl<'a, T: Send + 'a> IntoParallelIterator for &'a mut [T] {
        type Item = &'a mut T;
        type Iter = Done<&'a mut T>;
        fn into_par_iter(self) -> Done<&'a mut T> {
            Done { items: self.iter_mut().collect() }
        }
    }

    macro_rules! range_impl {
        ($($t:ty),*) => {$(
            impl IntoParallelIterator for std::ops::Range<$t> {
                type Item = $t;
                type Iter = Done<$t>;
                fn into_par_iter(self) -> Done<$t> {
                    Done { items: self.collect() }
                }
            }
            impl IntoParallelIterator for std::ops::RangeInclusive<$t> {
                type Item = $t;
                type Iter = Done<$t>;
                fn into_par_iter(self) -> Done<$t> {
                    Done { items: self.collect() }
                }
            }
        )*};
    }
    range_impl!(u8, u16, u32, u64, usize, i8, i16, i32, i64, isize);

    macro_rules! coll_impl {
        ($($c:ident),*) => {$(
            impl<T: Send> IntoParallelIterator for $c<T> {
                type Item = T;
                type Iter = Done<T>;
                fn into_par_iter(self) -> Done<T> {
                    Done { items: self.into_iter().collect() }
                }
            }
            impl<'a, T: Sync + 'a> IntoParallelIterator for &'a $c<T> {
                type Item = &'a T;
                type Iter = Done<&'a T>;
                fn into_par_iter(self) -> Done<&'a T> {
                    Done { items: self.iter().collect() }
                }
            }
        )*};
    }
    coll_impl!(BTreeSet);

    impl<T: Send, S> IntoParallelIterator for HashSet<T, S> {
        type Item = T;
        type Iter = Done<T>;
        fn into_par_iter(self) -> Done<T> {
            Done { items: self.into_iter().collect() }
        }
    }
    impl<'a, T: Sync + 'a, S> IntoParallelIterator for &'a HashSet<T, S> {
        type Item = &'a T;
        type Iter = Done<&'a T>;
        fn into_par_iter(self) -> Done<&'a T> {
            Done { items: self.iter().collect() }
        }
    }
    impl<K: Send, V: Send, S> IntoParallelIterator for HashMap<K, V, S> {
        type Item = (K, V);
        type Iter = Done<(K, V)>;
        fn into_par_iter(self) -> Done<(K, V)> {
            Done { items: self.into_iter().collect() }
        }
    }
    impl<'a, K: Sync + 'a, V: Sync + 'a, S> IntoParallelIterator for &'a HashMap<K, V, S> {
        type Item = (&'a K, &'a V);
        type Iter = Done<(&'a K, &'a V)>;
        fn into_par_iter(self) -> Done<(&'a K, &'a V)> {
            Done { items: self.iter().collect() }
        }
    }
    impl<'a, K: Sync + 'a, V: Send + 'a, S> IntoParallelIterator for &'a mut HashMap<K, V, S> {
        type Item = (&'a K, &'a mut V);
        type Iter = Done<(&'a K, &'a mut V)>;
        fn into_par_iter(self) -> Done<(&'a K, &'a mut V)> {
            Done { items: self.iter_mut().collect() }
        }
    }
    impl<K: Send, V: Send> IntoParallelIterator for BTreeMap<K, V> {
        type Item = (K, V);
        type Iter = Done<(K, V)>;
        fn into_par_iter(self) -> Done<(K, V)> {
            Done { items: self.into_iter().collect() }
        }
    }
    impl<'a, K: Sync + 'a, V: Sync + 'a> IntoParallelIterator for &'a BTreeMap<K, V> {
        type Item = (&'a K, &'a V);
        type Iter = Done<(&'a K, &'a V)>;
        fn into_par_iter(self) -> Done<(&'a K, &'a V)> {
            Done { items: self.iter().collect() }
        }
    }
    impl<'a, K: Sync + 'a, V: Send + 'a> IntoParallelIterator for &'a mut BTreeMap<K, V> {
        type Item = (&'a K, &'a mut V);
        type Iter = Done<(&'a K, &'a mut V)>;
        fn into_par_iter(self) -> Done<(&'a K, &'a mut V)> {
            Done { items: self.iter_mut().collect() }
        }
    }

    /// `.par_iter()` for everything whose shared reference is parallel-iterable (as in rayon)
    pub trait IntoParallelRefIterator<'a> {
        type Item: Send + 'a;
        type Iter: ParallelIterator<Item = Self::Item>;
        fn par_iter(&'a self) -> Self::Iter;
    }

    impl<'a, I: 'a + ?Sized> IntoParallelRefIterator<'a> for I
    where
        &'a I: IntoParallelIterator,
    {
        type Item = <&'a I as IntoParallelIterator>::Item;
        type Iter = <&'a I as IntoParallelIterator>::Iter;
        fn par_iter(&'a self) -> Self::Iter {
            self.into_par_iter()
        }
    }

    pub trait IntoParallelRefMutIterator<'a> {
        type Item: Send + 'a;
        type Iter: ParallelIterator<Item = Self::Item>;
        fn par_iter_mut(&'a mut self) -> Self::Iter;
    }

    impl<'a, I: 'a + ?Sized> IntoParallelRefMutIterator<'a> for I
    where
        &'a mut I: IntoParallelIterator,
    {
        type Item = <&'a mut I as IntoParallelIterator>::Item;
        type Iter = <&'a mut I as IntoParallelIterator>::Iter;
        fn par_iter_mut(&'a mut self) -> Self::Iter {
            self.into_par_iter()
        }
    }

    /// rayon's `collect` target trait; here every `FromIterator` collection qualifies
    pub trait FromParallelIterator<T: Send>: FromIterator<T> {}
    impl<T: Send, C: FromIterator<T>> FromParallelIterator<T> for C {}

    pub trait ParallelExtend<T: Send> {
        fn par_extend<I: IntoParallelIterator<Item = T>>(&mut self, it: I);
    }
    impl<T: Send, C: Extend<T>> ParallelExtend<T> for C {
        fn par_extend<I: IntoParallelIterator<Item = T>>(&mut self, it: I) {
            self.extend(it.into_par_iter().drive());
        }
    }

    pub trait ParallelBridge: Sized + Iterator {
        fn par_bridge(self) -> Done<Self::Item>
        where
            Self::Item: Send,
        {
            Done { items: self.collect() }
        }
    }
    impl<I: Iterator> ParallelBridge for I {}
}

pub mod slice {
    use super::iter::{IntoParallelIterator, VecIter};

    pub trait ParallelSlice<T: Sync> {
        fn as_parallel_slice(&self) -> &[T];
        fn par_chunks(&self, n: usize) -> VecIter<&[T]> {
            self.as_parallel_slice().chunks(n).collect::<Vec<_>>().into_par_iter()
        }
        fn par_chunks_exact(&self, n: usize) -> VecIter<&[T]> {
            self.as_parallel_slice().chunks_exact(n).collect::<Vec<_>>().into_par_iter()
        }
        fn par_windows(&self, n: usize) -> VecIter<&[T]> {
            self.as_parallel_slice().windows(n).collect::<Vec<_>>().into_par_iter()
        }
        fn par_split<P: Fn(&T) -> bool + Sync + Send>(&self, p: P) -> VecIter<&[T]> {
            self.as_parallel_slice().split(p).collect::<Vec<_>>().into_par_iter()
        }
    }
    impl<T: Sync> ParallelSlice<T> for [T] {
        fn as_parallel_slice(&self) -> &[T] {
            self
        }
    }

    pub trait ParallelSliceMut<T: Send> {
        fn as_parallel_slice_mut(&mut self) -> &mut [T];
        fn par_chunks_mut(&mut self, n: usize) -> VecIter<&mut [T]> {
            self.as_parallel_slice_mut().chunks_mut(n).collect::<Vec<_>>().into_par_iter()
        }
        fn par_chunks_exact_mut(&mut self, n: usize) -> VecIter<&mut [T]> {
            self.as_parallel_slice_mut().chunks_exact_mut(n).collect::<Vec<_>>().into_par_iter()
        }
        fn par_sort(&mut self)
        where
            T: Ord,
        {
            self.as_parallel_slice_mut().sort()
        }
        fn par_sort_by<F: Fn(&T, &T) -> std::cmp::Ordering + Sync>(&mut self, f: F) {
            self.as_parallel_slice_mut().sort_by(f)
        }
        fn par_sort_by_key<K: Ord, F: Fn(&T) -> K + Sync>(&mut self, f: F) {
            self.as_parallel_slice_mut().sort_by_key(f)
        }
        fn par_sort_by_cached_key<K: Ord + Send, F: Fn(&T) -> K + Sync>(&mut self, f: F) {
            self.as_parallel_slice_mut().sort_by_cached_key(f)
        }
        fn par_sort_unstable(&mut self)
        where
            T: Ord,
        {
            self.as_parallel_slice_mut().sort_unstable()
        }
        fn par_sort_unstable_by<F: Fn(&T, &T) -> std::cmp::Ordering + Sync>(&mut self, f: F) {
            self.as_parallel_slice_mut().sort_unstable_by(f)
        }
        fn par_sort_unstable_by_key<K: Ord, F: Fn(&T) -> K + Sync>(&mut self, f: F) {
            self.as_parallel_slice_mut().sort_unstable_by_key(f)
        }
    }
    impl<T: Send> ParallelSliceMut<T> for [T] {
        fn as_parallel_slice_mut(&mut self) -> &mut [T] {
            self
        }
    }
}

pub mod str {
    use super::iter::{IntoParallelIterator, VecIter};

    pub trait ParallelString {
        fn as_parallel_string(&self) -> &str;
        fn par_chars(&self) -> VecIter<char> {
            self.as_parallel_string().chars().collect::<Vec<_>>().into_par_iter()
        }
        fn par_bytes(&self) -> VecIter<u8> {
            self.as_parallel_string().bytes().collect::<Vec<_>>().into_par_iter()
        }
        fn par_lines(&self) -> VecIter<&str> {
            self.as_parallel_string().lines().collect::<Vec<_>>().into_par_iter()
        }
        fn par_split_whitespace(&self) -> VecIter<&str> {
            self.as_parallel_string().split_whitespace().collect::<Vec<_>>().into_par_iter()
        }
    }
    impl ParallelString for str {
        fn as_parallel_string(&self) -> &str {
            self
        }
    }
}

pub mod prelude {
    pub use crate::iter::{
        FromParallelIterator, IndexedParallelIterator, IntoParallelIterator, IntoParallelRefIterator, IntoParallelRefMutIterator, ParallelBridge,
        ParallelExtend, ParallelIterator,
    };
    pub use crate::slice::{ParallelSlice, ParallelSliceMut};
    pub use crate::str::ParallelString;
}

#[cfg(test)]
mod tests {
    use super::prelude::*;
    use std::collections::HashMap;

    // outside a simulated execution everything runs sequentially; the tests pin the API surface
    // and the ordering contract
    #[test]
    fn api_surface() {
        let v: Vec<u32> = (0..100u32).into_par_iter().map(|x| x * 2).collect();
        assert_eq!(v[7], 14);
        let s: u64 = v.par_iter().map(|&x| x as u64).sum();
        assert_eq!(s, 9900);
        let mut w = vec![1u8; 10];
        w.par_iter_mut().for_each(|x| *x += 1);
        assert!(w.iter().all(|&x| x == 2));
        let c: Vec<usize> = v.par_chunks(7).map(|c| c.len()).collect();
        assert_eq!(c.len(), 15);
        w.par_chunks_mut(3).enumerate().for_each(|(i, c)| c[0] = i as u8);
        assert_eq!(w[3], 1);
        let f: Vec<u32> = v.par_iter().filter(|&&x| x % 4 == 0).cloned().collect();
        assert_eq!(f.len(), 50);
        let fm: Vec<u32> = v.clone().into_par_iter().filter_map(|x| if x > 190 { Some(x) } else { None }).collect();
        assert_eq!(fm, vec![192, 194, 196, 198]);
        let fl: Vec<u32> = (0..3u32).into_par_iter().flat_map(|x| vec![x; x as usize]).collect();
        assert_eq!(fl, vec![1, 2, 2]);
        let fi: Vec<u32> = (0..3u32).into_par_iter().flat_map_iter(|x| 0..x).collect();
        assert_eq!(fi, vec![0, 0, 1]);
        let z: Vec<(u32, u8)> = v.par_iter().copied().zip(w.par_iter().copied()).collect();
        assert_eq!(z.len(), 10);
        assert_eq!(v.par_iter().max(), Some(&198));
        assert_eq!(v.par_iter().copied().reduce(|| 0, |a, b| a.max(b)), 198);
        assert!(v.par_iter().any(|&x| x == 198) && v.par_iter().all(|&x| x < 199));
        let m: HashMap<u32, u32> = v.par_iter().map(|&x| (x, x + 1)).collect();
        assert_eq!(m[&4], 5);
        let n = m.par_iter().filter(|(k, _)| **k < 10).count();
        assert_eq!(n, 5);
        let (a, b) = super::join(|| 1, || 2);
        assert_eq!((a, b), (1, 2));
        let hits = std::sync::atomic::AtomicUsize::new(0);
        super::scope(|s| {
            for _ in 0..4 {
                s.spawn(|s2| {
                    hits.fetch_add(1, std::sync::atomic::Ordering::SeqCst);
                    s2.spawn(|_| {
                        hits.fetch_add(1, std::sync::atomic::Ordering::SeqCst);
                    });
                });
            }
        });
        assert_eq!(hits.into_inner(), 8);
        let mut u = vec![3, 1, 2];
        u.par_sort_unstable();
        assert_eq!(u, vec![1, 2, 3]);
        let pool = super::ThreadPoolBuilder::new().num_threads(3).build().unwrap();
        assert_eq!(pool.install(super::current_num_threads), 3);
        let folded: Vec<u32> = (1..=4u32).into_par_iter().fold(|| 0, |a, b| a + b).collect();
        assert_eq!(folded.iter().sum::<u32>(), 10);
        let mut ext = vec![0u32];
        ext.par_extend(vec![1u32, 2]);
        assert_eq!(ext, vec![0, 1, 2]);
        let b: Vec<u32> = (0..5u32).par_bridge().map(|x| x + 1).collect();
        assert_eq!(b.len(), 5);
        assert_eq!("a b".par_split_whitespace().count(), 2);
    }
}
