//! A stand-in for the `rayon` crate inside the ragc simulator.
//!
//! ragc uses exactly: `slice.par_iter().map(f).collect::<Vec<_>>()`,
//! `vec.into_par_iter().filter_map(f).collect::<Vec<_>>()`, `rayon::current_num_threads()` and
//! `ThreadPoolBuilder::new().num_threads(n).build_global()`. Here a parallel map is executed by
//! `pool` shuttle tasks (the caller plus `pool - 1` scoped helpers) that claim item indices from a
//! shared atomic counter — every claim is a scheduling point of the simulator — and store each
//! result in the slot of its index; `collect` reads the slots in index order, which is the
//! contract of rayon's indexed collect. Which task computes which item, and in which order the
//! closures run, is decided by the harness's scheduler and is therefore replayable.

use std::cell::Cell;
use std::sync::atomic::{AtomicU64, Ordering as StdOrdering};

thread_local! {
    /// pool size chosen by the harness for the current run (0 = not set)
    static POOL_OVERRIDE: Cell<usize> = const { Cell::new(0) };
    /// pool size requested through ThreadPoolBuilder::build_global (0 = not set)
    static POOL_GLOBAL: Cell<usize> = const { Cell::new(0) };
}

/// statistics for the evidence files (process-wide, std atomics: no scheduling points)
pub static PAR_CALLS: AtomicU64 = AtomicU64::new(0);
pub static PAR_CALLS_PARALLEL: AtomicU64 = AtomicU64::new(0);
pub static PAR_ITEMS: AtomicU64 = AtomicU64::new(0);
pub static PAR_ITEMS_BY_HELPERS: AtomicU64 = AtomicU64::new(0);

/// per-run probe sink installed by the harness (name, amount)
static PROBE_HOOK: std::sync::OnceLock<fn(&'static str, u64)> = std::sync::OnceLock::new();

fn probe(name: &'static str, n: u64) {
    if let Some(h) = PROBE_HOOK.get() {
        h(name, n);
    }
}

pub mod verif {
    pub fn set_probe_hook(h: fn(&'static str, u64)) {
        let _ = super::PROBE_HOOK.set(h);
    }
    /// Set the pool size for runs on this OS thread (0 = fall back to build_global / 1).
    pub fn set_pool(n: usize) {
        super::POOL_OVERRIDE.with(|c| c.set(n));
        super::POOL_GLOBAL.with(|c| c.set(0));
    }
    pub fn stats() -> (u64, u64, u64, u64) {
        use std::sync::atomic::Ordering::Relaxed;
        (
            super::PAR_CALLS.load(Relaxed),
            super::PAR_CALLS_PARALLEL.load(Relaxed),
            super::PAR_ITEMS.load(Relaxed),
            super::PAR_ITEMS_BY_HELPERS.load(Relaxed),
        )
    }
}

pub fn current_num_threads() -> usize {
    let o = POOL_OVERRIDE.with(|c| c.get());
    if o > 0 {
        return o;
    }
    let g = POOL_GLOBAL.with(|c| c.get());
    if g > 0 {
        return g;
    }
    1
}

#[derive(Debug)]
pub struct ThreadPoolBuildError;

impl std::fmt::Display for ThreadPoolBuildError {
    fn fmt(&self, f: &mut std::fmt::Formatter<'_>) -> std::fmt::Result {
        write!(f, "the global thread pool has already been initialized")
    }
}

impl std::error::Error for ThreadPoolBuildError {}

#[derive(Default)]
pub struct ThreadPoolBuilder {
    n: usize,
}

impl ThreadPoolBuilder {
    pub fn new() -> Self {
        ThreadPoolBuilder { n: 0 }
    }
    pub fn num_threads(mut self, n: usize) -> Self {
        self.n = n;
        self
    }
    pub fn build_global(self) -> Result<(), ThreadPoolBuildError> {
        POOL_GLOBAL.with(|c| c.set(self.n));
        Ok(())
    }
}

fn in_simulation() -> bool {
    shuttle::current::get_current_task().is_some()
}

/// Apply `f` to every item; results in item order.
fn run_indexed<T, U, F>(items: Vec<T>, f: &F) -> Vec<U>
where
    T: Send,
    U: Send,
    F: Fn(T) -> U + Sync,
{
    let n = items.len();
    PAR_CALLS.fetch_add(1, StdOrdering::Relaxed);
    PAR_ITEMS.fetch_add(n as u64, StdOrdering::Relaxed);
    let pool = current_num_threads().min(n);
    if pool <= 1 || !in_simulation() {
        return items.into_iter().map(f).collect();
    }
    PAR_CALLS_PARALLEL.fetch_add(1, StdOrdering::Relaxed);
    probe("rayon_parallel_maps", 1);
    probe("rayon_parallel_items", n as u64);
    use shuttle::sync::atomic::{AtomicUsize, Ordering};
    // each slot is touched by exactly one task (the one that claimed its index): the std mutexes
    // are never contended and never held across a scheduling point
    let inputs: Vec<std::sync::Mutex<Option<T>>> = items.into_iter().map(|t| std::sync::Mutex::new(Some(t))).collect();
    let outputs: Vec<std::sync::Mutex<Option<U>>> = (0..n).map(|_| std::sync::Mutex::new(None)).collect();
    let next = AtomicUsize::new(0);
    let work = |helper: bool| loop {
        let i = next.fetch_add(1, Ordering::SeqCst);
        if i >= n {
            break;
        }
        let item = inputs[i].lock().unwrap().take().expect("item claimed twice");
        let out = f(item);
        *outputs[i].lock().unwrap() = Some(out);
        if helper {
            PAR_ITEMS_BY_HELPERS.fetch_add(1, StdOrdering::Relaxed);
            probe("rayon_items_run_by_helper_tasks", 1);
        }
    };
    shuttle::thread::scope(|s| {
        for _ in 1..pool {
            s.spawn(|| work(true));
        }
        work(false);
    });
    outputs
        .into_iter()
        .map(|m| m.into_inner().unwrap().expect("item without result"))
        .collect()
}

pub mod iter {
    use super::run_indexed;

    pub trait ParallelIterator: Sized {
        type Item: Send;
        /// evaluate the pipeline; results in the order of the underlying sequence
        fn drive(self) -> Vec<Self::Item>;

        fn map<F, U>(self, f: F) -> Map<Self, F>
        where
            F: Fn(Self::Item) -> U + Sync + Send,
            U: Send,
        {
            Map { base: self, f }
        }

        fn filter_map<F, U>(self, f: F) -> FilterMap<Self, F>
        where
            F: Fn(Self::Item) -> Option<U> + Sync + Send,
            U: Send,
        {
            FilterMap { base: self, f }
        }

        fn collect<C: FromIterator<Self::Item>>(self) -> C {
            self.drive().into_iter().collect()
        }
    }

    pub struct VecIter<T> {
        items: Vec<T>,
    }

    impl<T: Send> ParallelIterator for VecIter<T> {
        type Item = T;
        fn drive(self) -> Vec<T> {
            self.items
        }
    }

    pub struct Map<I, F> {
        base: I,
        f: F,
    }

    impl<I, F, U> ParallelIterator for Map<I, F>
    where
        I: ParallelIterator,
        F: Fn(I::Item) -> U + Sync + Send,
        U: Send,
    {
        type Item = U;
        fn drive(self) -> Vec<U> {
            run_indexed(self.base.drive(), &self.f)
        }
    }

    pub struct FilterMap<I, F> {
        base: I,
        f: F,
    }

    impl<I, F, U> ParallelIterator for FilterMap<I, F>
    where
        I: ParallelIterator,
        F: Fn(I::Item) -> Option<U> + Sync + Send,
        U: Send,
    {
        type Item = U;
        fn drive(self) -> Vec<U> {
            run_indexed(self.base.drive(), &self.f).into_iter().flatten().collect()
        }
    }

    pub trait IntoParallelIterator {
        type Item: Send;
        type Iter: ParallelIterator<Item = Self::Item>;
        fn into_par_iter(self) -> Self::Iter;
    }

    impl<T: Send> IntoParallelIterator for Vec<T> {
        type Item = T;
        type Iter = VecIter<T>;
        fn into_par_iter(self) -> VecIter<T> {
            VecIter { items: self }
        }
    }

    pub trait IntoParallelRefIterator<'a> {
        type Item: Send + 'a;
        type Iter: ParallelIterator<Item = Self::Item>;
        fn par_iter(&'a self) -> Self::Iter;
    }

    impl<'a, T: Sync + 'a> IntoParallelRefIterator<'a> for [T] {
        type Item = &'a T;
        type Iter = VecIter<&'a T>;
        fn par_iter(&'a self) -> VecIter<&'a T> {
            VecIter { items: self.iter().collect() }
        }
    }

    impl<'a, T: Sync + 'a> IntoParallelRefIterator<'a> for Vec<T> {
        type Item = &'a T;
        type Iter = VecIter<&'a T>;
        fn par_iter(&'a self) -> VecIter<&'a T> {
            VecIter { items: self.iter().collect() }
        }
    }
}

pub mod prelude {
    pub use crate::iter::{IntoParallelIterator, IntoParallelRefIterator, ParallelIterator};
}
