//! Per-run reports, aggregation across runs / worker processes, evidence files, known findings.

use serde::{Deserialize, Serialize};
use serde_json::{json, Value};
use std::collections::{BTreeMap, BTreeSet};

#[derive(Debug, Clone, Serialize, Deserialize)]
pub struct Violation {
    pub property: String,
    pub class: String,
    pub detail: String,
    /// engine-specific run spec, sufficient to re-execute exactly
    pub spec: Value,
    pub engine: String,
    pub index: u64,
    pub event_log_digest: u64,
}

#[derive(Debug, Default, Clone)]
pub struct RunReport {
    pub violations: Vec<Violation>,
    /// digest identifying this case for the "distinct" measure
    pub digest: u64,
    pub nontrivial: bool,
    /// summed over runs
    pub counters: BTreeMap<String, u64>,
    /// max over runs
    pub maxima: BTreeMap<String, u64>,
    pub sample: Option<Value>,
    /// how many evaluations this run stands for (e.g. crash points enumerated)
    pub evaluations: u64,
    /// additional distinct digests (engines that evaluate many cases per run)
    pub extra_digests: Vec<u64>,
    /// (run index, transcript digest, human summary) for cross-profile comparison
    pub transcript: Option<(u64, u64, String)>,
}

impl RunReport {
    pub fn count(&mut self, k: &str, v: u64) {
        *self.counters.entry(k.to_string()).or_insert(0) += v;
    }
    pub fn max(&mut self, k: &str, v: u64) {
        let e = self.maxima.entry(k.to_string()).or_insert(0);
        if v > *e {
            *e = v;
        }
    }
}

#[derive(Debug, Default, Serialize, Deserialize)]
pub struct Aggregate {
    pub evaluations: u64,
    pub runs: u64,
    pub digests: BTreeSet<u64>,
    pub counters: BTreeMap<String, u64>,
    pub maxima: BTreeMap<String, u64>,
    pub samples: Vec<Value>,
    pub violations: Vec<Violation>,
    pub digest_cap_hit: bool,
    #[serde(default)]
    pub transcripts: BTreeMap<u64, (u64, String)>,
}

const DIGEST_CAP: usize = 1_000_000;

impl Aggregate {
    pub fn add(&mut self, r: RunReport) {
        self.runs += 1;
        self.evaluations += r.evaluations.max(1);
        if r.nontrivial {
            if self.digests.len() < DIGEST_CAP {
                self.digests.insert(r.digest);
            } else {
                self.digest_cap_hit = true;
            }
        }
        for d in r.extra_digests {
            if self.digests.len() < DIGEST_CAP {
                self.digests.insert(d);
            } else {
                self.digest_cap_hit = true;
            }
        }
        for (k, v) in r.counters {
            *self.counters.entry(k).or_insert(0) += v;
        }
        for (k, v) in r.maxima {
            let e = self.maxima.entry(k).or_insert(0);
            if v > *e {
                *e = v;
            }
        }
        if let Some((i, d, m)) = r.transcript {
            self.transcripts.insert(i, (d, m));
        }
        if let Some(s) = r.sample {
            if self.samples.len() < 3 {
                self.samples.push(s);
            }
        }
        for v in r.violations {
            if self.violations.len() < 50 {
                self.violations.push(v);
            }
        }
    }
    pub fn merge(&mut self, o: Aggregate) {
        self.runs += o.runs;
        self.evaluations += o.evaluations;
        for d in o.digests {
            if self.digests.len() < DIGEST_CAP * 16 {
                self.digests.insert(d);
            } else {
                self.digest_cap_hit = true;
            }
        }
        self.digest_cap_hit |= o.digest_cap_hit;
        for (k, v) in o.counters {
            *self.counters.entry(k).or_insert(0) += v;
        }
        for (k, v) in o.maxima {
            let e = self.maxima.entry(k).or_insert(0);
            if v > *e {
                *e = v;
            }
        }
        for s in o.samples {
            if self.samples.len() < 4 {
                self.samples.push(s);
            }
        }
        self.violations.extend(o.violations);
        self.transcripts.extend(o.transcripts);
    }
}

#[derive(Debug, Clone, Deserialize)]
pub struct KnownFinding {
    pub property: String,
    pub class: String,
    /// every string must occur in the violation detail
    #[serde(default)]
    pub detail_contains: Vec<String>,
    pub what: String,
}

#[derive(Debug, Clone, Deserialize, Default)]
pub struct KnownFile {
    #[serde(default)]
    pub open: Vec<KnownFinding>,
    #[serde(default)]
    pub fixed: Vec<Value>,
}

pub fn load_known(path: &str) -> KnownFile {
    match std::fs::read_to_string(path) {
        Ok(s) => serde_json::from_str(&s).expect("known_findings.json does not parse"),
        Err(_) => KnownFile::default(),
    }
}

impl KnownFinding {
    pub fn matches(&self, v: &Violation) -> bool {
        self.property == v.property
            && self.class == v.class
            && self.detail_contains.iter().all(|s| v.detail.contains(s))
    }
}

pub struct EvidenceMeta<'a> {
    pub property: &'a str,
    pub tier: &'a str,
    pub seed: u64,
    pub level: &'a str,
    pub rule: &'a str,
    pub assumptions: Vec<String>,
    pub components_real: Vec<&'a str>,
    pub components_stub: Vec<&'a str>,
    pub wall_s: f64,
    pub violations: u64,
    pub extra: Value,
}

pub fn write_evidence(path: &str, m: &EvidenceMeta, agg: &Aggregate) -> std::io::Result<()> {
    let mut fault_counts = BTreeMap::new();
    let mut probe_counts = BTreeMap::new();
    let mut other = BTreeMap::new();
    for (k, v) in &agg.counters {
        if let Some(f) = k.strip_prefix("fault.") {
            fault_counts.insert(f.to_string(), *v);
        } else if let Some(p) = k.strip_prefix("probe.") {
            probe_counts.insert(p.to_string(), *v);
        } else {
            other.insert(k.clone(), *v);
        }
    }
    let runs_per_hour = if m.wall_s > 0.0 {
        (agg.runs as f64 / m.wall_s * 3600.0) as u64
    } else {
        0
    };
    let mut coverage = json!({
        "evaluations": agg.evaluations,
        "distinct_nontrivial": agg.digests.len(),
        "rule": m.rule,
        "samples": agg.samples,
        "simulated_runs": agg.runs,
        "runs_per_hour": runs_per_hour,
        "fault_counts": fault_counts,
        "probe_counts": probe_counts,
        "counters": other,
        "maxima": agg.maxima,
        "components": {"real": m.components_real, "stub": m.components_stub},
        "distinct_digest_cap_hit": agg.digest_cap_hit,
    });
    if let (Some(c), Some(e)) = (coverage.as_object_mut(), m.extra.as_object()) {
        for (k, v) in e {
            c.insert(k.clone(), v.clone());
        }
    }
    let ev = json!({
        "property_id": m.property,
        "tier": m.tier,
        "seed": m.seed,
        "level": m.level,
        "coverage": coverage,
        "assumptions": m.assumptions,
        "wall_s": m.wall_s,
        "violations": m.violations,
    });
    if let Some(dir) = std::path::Path::new(path).parent() {
        std::fs::create_dir_all(dir)?;
    }
    std::fs::write(path, serde_json::to_string_pretty(&ev).unwrap() + "\n")
}
