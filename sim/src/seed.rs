//! One integer decides everything: SplitMix64 streams derived from VERIF_SEED and the run index.

#[derive(Clone, Debug)]
pub struct Rng(pub u64);

impl Rng {
    pub fn new(seed: u64) -> Self {
        Rng(seed)
    }
    pub fn next(&mut self) -> u64 {
        self.0 = self.0.wrapping_add(0x9E37_79B9_7F4A_7C15);
        let mut z = self.0;
        z = (z ^ (z >> 30)).wrapping_mul(0xBF58_476D_1CE4_E5B9);
        z = (z ^ (z >> 27)).wrapping_mul(0x94D0_49BB_1331_11EB);
        z ^ (z >> 31)
    }
    /// uniform in [0, n) (n > 0)
    pub fn below(&mut self, n: u64) -> u64 {
        debug_assert!(n > 0);
        self.next() % n
    }
    /// uniform in [lo, hi] inclusive
    pub fn range(&mut self, lo: u64, hi: u64) -> u64 {
        lo + self.below(hi - lo + 1)
    }
    pub fn usize(&mut self, lo: usize, hi: usize) -> usize {
        self.range(lo as u64, hi as u64) as usize
    }
    pub fn pct(&mut self, p: u64) -> bool {
        self.below(100) < p
    }
    pub fn pick<'a, T>(&mut self, xs: &'a [T]) -> &'a T {
        &xs[self.below(xs.len() as u64) as usize]
    }
    /// Derive an independent stream.
    pub fn fork(&mut self, tag: u64) -> Rng {
        let a = self.next();
        Rng(a ^ tag.wrapping_mul(0xD6E8_FEB8_6659_FD93))
    }
}

/// The four independent streams of a run (DESIGN §2.1). Split up-front so that e.g. adding
/// a fault does not shift the workload.
pub struct Streams {
    pub workload: Rng,
    pub config: Rng,
    pub fault: Rng,
    pub schedule: Rng,
}

pub fn run_seed(base: u64, index: u64) -> u64 {
    let mut r = Rng(base ^ 0x5EED_0000_0000_0000);
    let a = r.next();
    let mut r2 = Rng(a.wrapping_add(index.wrapping_mul(0x9E37_79B9_7F4A_7C15)));
    r2.next()
}

pub fn streams(run_seed: u64) -> Streams {
    let mut r = Rng(run_seed);
    Streams {
        workload: r.fork(1),
        config: r.fork(2),
        fault: r.fork(3),
        schedule: r.fork(4),
    }
}

pub fn fnv64(data: &[u8]) -> u64 {
    let mut h: u64 = 0xcbf29ce484222325;
    for &b in data {
        h = (h ^ b as u64).wrapping_mul(0x100000001b3);
    }
    h
}

pub fn fnv_mix(h: u64, v: u64) -> u64 {
    let mut h = h;
    for b in v.to_le_bytes() {
        h = (h ^ b as u64).wrapping_mul(0x100000001b3);
    }
    h
}
