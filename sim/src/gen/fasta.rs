//! Rendering a workload as FASTA text in different presentations (wrapping, case, line ends,
//! gzip single/multi member).

use super::genome::{SampleModel, LETTERS};
use crate::seed::Rng;
use serde::{Deserialize, Serialize};
use std::io::Write;

#[derive(Clone, Debug, Serialize, Deserialize, PartialEq)]
pub struct Presentation {
    /// 0 = no wrapping
    pub line_width: u32,
    pub crlf: bool,
    /// 0 upper, 1 lower, 2 mixed
    pub case: u8,
    /// 0 plain, 1 gzip single member, 2 gzip multi member
    pub gz: u8,
    pub final_newline: bool,
    pub seed: u64,
}

impl Presentation {
    pub fn plain() -> Self {
        Presentation { line_width: 60, crlf: false, case: 0, gz: 0, final_newline: true, seed: 0 }
    }
    pub fn draw(r: &mut Rng) -> Self {
        Presentation {
            line_width: *r.pick(&[0u32, 1, 7, 60, 80, 100_000]),
            crlf: r.pct(20),
            case: r.below(3) as u8,
            gz: *r.pick(&[0u8, 0, 0, 1, 2]),
            final_newline: r.pct(85),
            seed: r.next(),
        }
    }
}

pub fn render_text(samples: &[&SampleModel], p: &Presentation) -> Vec<u8> {
    let mut r = Rng::new(p.seed);
    let eol: &[u8] = if p.crlf { b"\r\n" } else { b"\n" };
    let mut out = Vec::new();
    for s in samples {
        for (hdr, codes) in &s.contigs {
            out.push(b'>');
            out.extend_from_slice(hdr.as_bytes());
            out.extend_from_slice(eol);
            let letters: Vec<u8> = codes
                .iter()
                .map(|&c| {
                    let l = LETTERS[c as usize];
                    match p.case {
                        0 => l,
                        1 => l.to_ascii_lowercase(),
                        _ => {
                            if r.pct(50) {
                                l.to_ascii_lowercase()
                            } else {
                                l
                            }
                        }
                    }
                })
                .collect();
            if p.line_width == 0 {
                out.extend_from_slice(&letters);
                out.extend_from_slice(eol);
            } else {
                for chunk in letters.chunks(p.line_width as usize) {
                    out.extend_from_slice(chunk);
                    out.extend_from_slice(eol);
                }
            }
        }
    }
    if !p.final_newline {
        while out.last() == Some(&b'\n') || out.last() == Some(&b'\r') {
            out.pop();
        }
    }
    out
}

fn gz_member(data: &[u8], level: u32) -> Vec<u8> {
    let mut e = flate2::write::GzEncoder::new(Vec::new(), flate2::Compression::new(level));
    e.write_all(data).unwrap();
    e.finish().unwrap()
}

/// Bytes of the file as stored on the sim disk, and whether the name needs a `.gz` suffix.
pub fn render_file(samples: &[&SampleModel], p: &Presentation) -> (Vec<u8>, bool) {
    let text = render_text(samples, p);
    match p.gz {
        0 => (text, false),
        1 => (gz_member(&text, 1), true),
        _ => {
            // member boundaries at PRNG-chosen offsets (may fall inside a header line)
            let mut r = Rng::new(p.seed ^ 0xABCD);
            // empty members (own stream): bgzip ends every file with one, so `cat a.gz b.gz`
            // has them in the middle; a third of the files get none
            let mut re = Rng::new(p.seed ^ 0xE0F);
            let empties = re.pct(66);
            let mut out = Vec::new();
            let mut at = 0;
            if empties && re.pct(10) {
                out.extend_from_slice(&gz_member(&[], 1));
            }
            while at < text.len() {
                let n = (r.range(1, 400) as usize).min(text.len() - at);
                out.extend_from_slice(&gz_member(&text[at..at + n], 1));
                at += n;
                if empties && re.pct(12) {
                    out.extend_from_slice(&gz_member(&[], 1));
                }
            }
            if text.is_empty() {
                out = gz_member(&text, 1);
            }
            (out, true)
        }
    }
}
