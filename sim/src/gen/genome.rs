//! Workload model: sample sets derived from a random reference by mutation (DESIGN §3, engine A).
//! The model doubles as the oracle's ground truth: (sample, [(contig header, codes 0..15)]).

use crate::seed::Rng;
use serde::{Deserialize, Serialize};

/// code -> letter, the AGC symbol table (index = numeric code)
pub const LETTERS: &[u8; 16] = b"ACGTNRYSWKMBDHVU";

#[derive(Clone, Debug, Serialize, Deserialize, PartialEq)]
pub struct SampleModel {
    pub name: String,
    /// (full header line without '>', numeric codes)
    pub contigs: Vec<(String, Vec<u8>)>,
}

#[derive(Clone, Debug, Serialize, Deserialize, PartialEq)]
pub struct Workload {
    pub samples: Vec<SampleModel>,
    /// headers are PanSN (`sample#hap#contig`), so one file can hold all samples
    pub pansn: bool,
}

#[derive(Clone, Debug, Serialize, Deserialize, PartialEq)]
pub struct GenParams {
    pub seed: u64,
    pub n_samples: u32,
    pub ref_contigs: u32,
    pub max_len: u32,
    pub snp_permille: u32,
    pub indel_permille: u32,
    pub nrun_pct: u32,
    pub iupac_permille: u32,
    pub rc_pct: u32,
    pub dup_pct: u32,
    pub drop_pct: u32,
    pub extra_pct: u32,
    pub reorder_pct: u32,
    pub identical_pct: u32,
    pub tiny_pct: u32,
    pub pansn: bool,
    /// contig names whose lexicographic order differs from push order / with descriptions
    pub wild_names: bool,
    /// all samples share one short contig (many ids in one group: crosses 50-entry packs)
    pub shared_small: bool,
    /// 0 = zero-padded ascending sample names (S000#0, smp000); 1 = unpadded numbers in shuffled
    /// order, so that one sample's name is a strict textual prefix of another's (HG#1 / HG#10)
    /// and the archive order differs from the lexicographic order
    #[serde(default)]
    pub name_style: u8,
}

impl GenParams {
    pub fn draw(w: &mut Rng, c: &mut Rng) -> GenParams {
        let shape = c.below(100);
        let n_samples = match shape {
            0..=9 => 1,
            10..=59 => c.range(2, 6) as u32,
            60..=89 => c.range(7, 20) as u32,
            90..=96 => c.range(21, 60) as u32,
            _ => c.range(61, 130) as u32,
        };
        let big = n_samples > 20;
        let max_len = if big {
            *c.pick(&[60u32, 200, 600])
        } else {
            *c.pick(&[40u32, 300, 1200, 1200, 3000, 6000])
        };
        let seed = w.next();
        // drawn from its own stream so that adding this dimension did not shift the others
        let name_style = if Rng::new(seed ^ 0x4E41_4D45).pct(30) { 1 } else { 0 };
        GenParams {
            seed,
            n_samples,
            ref_contigs: if big { c.range(1, 3) as u32 } else { c.range(1, 8) as u32 },
            max_len,
            snp_permille: *c.pick(&[0u32, 1, 5, 10, 30, 100]),
            indel_permille: *c.pick(&[0u32, 0, 1, 5, 20]),
            nrun_pct: *c.pick(&[0u32, 0, 10, 50]),
            iupac_permille: *c.pick(&[0u32, 0, 1, 5, 30]),
            rc_pct: *c.pick(&[0u32, 10, 30, 50]),
            dup_pct: *c.pick(&[0u32, 5, 20]),
            drop_pct: *c.pick(&[0u32, 5, 20]),
            extra_pct: *c.pick(&[0u32, 5, 20]),
            reorder_pct: *c.pick(&[0u32, 20, 100]),
            identical_pct: *c.pick(&[0u32, 5, 30]),
            tiny_pct: *c.pick(&[0u32, 5, 20]),
            pansn: c.pct(50),
            wild_names: c.pct(50),
            shared_small: c.pct(15),
            name_style,
        }
    }
}

fn random_seq(r: &mut Rng, len: usize) -> Vec<u8> {
    let mut v = Vec::with_capacity(len);
    // low-complexity stretches now and then so that k-mers repeat
    let mut i = 0;
    while i < len {
        if r.pct(2) && len - i > 8 {
            let unit: Vec<u8> = (0..r.range(1, 4)).map(|_| r.below(4) as u8).collect();
            let reps = r.range(2, 12) as usize;
            for j in 0..(reps * unit.len()).min(len - i) {
                v.push(unit[j % unit.len()]);
            }
            i = v.len();
        } else {
            v.push(r.below(4) as u8);
            i += 1;
        }
    }
    v.truncate(len);
    v
}

pub fn revcomp(s: &[u8]) -> Vec<u8> {
    s.iter().rev().map(|&c| if c < 4 { 3 - c } else { c }).collect()
}

fn mutate(r: &mut Rng, p: &GenParams, src: &[u8]) -> Vec<u8> {
    let mut out = Vec::with_capacity(src.len() + 16);
    let mut i = 0;
    while i < src.len() {
        let c = src[i];
        if p.indel_permille > 0 && r.below(1000) < p.indel_permille as u64 {
            if r.pct(50) {
                // deletion
                i += r.range(1, 12) as usize;
                continue;
            } else {
                for _ in 0..r.range(1, 12) {
                    out.push(r.below(4) as u8);
                }
            }
        }
        if p.snp_permille > 0 && r.below(1000) < p.snp_permille as u64 {
            out.push(((c as u64 + 1 + r.below(3)) % 4) as u8);
        } else if p.iupac_permille > 0 && r.below(1000) < p.iupac_permille as u64 {
            out.push(r.range(4, 15) as u8);
        } else {
            out.push(c);
        }
        i += 1;
    }
    if p.nrun_pct > 0 && r.pct(p.nrun_pct as u64) && !out.is_empty() {
        let at = r.below(out.len() as u64) as usize;
        let n = (r.range(1, 40) as usize).min(out.len() - at);
        for x in out.iter_mut().skip(at).take(n) {
            *x = 4;
        }
    }
    if out.is_empty() {
        out.push(r.below(4) as u8);
    }
    out
}

fn contig_len(r: &mut Rng, p: &GenParams) -> usize {
    if p.tiny_pct > 0 && r.pct(p.tiny_pct as u64) {
        r.range(1, 40) as usize
    } else {
        r.range((p.max_len / 4).max(1) as u64, p.max_len as u64) as usize
    }
}

const WILD_NAMES: &[&str] = &[
    "chrX", "chrIV", "chrI", "chr10", "chr2", "chrM", "zeta", "alpha", "scaffold_12", "Contig0001",
];

fn contig_name(r: &mut Rng, p: &GenParams, idx: usize) -> String {
    if p.wild_names {
        let base = WILD_NAMES[(idx * 7 + 3) % WILD_NAMES.len()];
        let mut s = format!("{base}_{idx}");
        match r.below(8) {
            0 => s.push_str(" len=123 some description"),
            1 => s.push_str("  double  space"),
            2 => s.push_str("\tTAB field"),
            3 => s.push_str(&format!(" {}", "A".repeat(r.range(101, 140) as usize))),
            _ => {}
        }
        s
    } else {
        format!("ctg{idx:03}")
    }
}

pub fn generate(p: &GenParams) -> Workload {
    let mut r = Rng::new(p.seed);
    // reference contigs
    let mut reference: Vec<(String, Vec<u8>)> = Vec::new();
    for i in 0..p.ref_contigs as usize {
        let len = contig_len(&mut r, p);
        let mut seq = random_seq(&mut r, len);
        if p.iupac_permille > 0 && r.pct(20) {
            let at = r.below(seq.len() as u64) as usize;
            seq[at] = r.range(4, 15) as u8;
        }
        reference.push((contig_name(&mut r, p, i), seq));
    }
    // a later contig whose whole header equals the first word of an earlier header that carries a
    // description (">ctgA alt" ... ">ctgA"): distinct names, equal ids. Own stream and no effect on
    // the sequences, so existing run indices keep everything else.
    if p.wild_names && reference.len() >= 2 {
        let mut nr = Rng::new(p.seed ^ 0x1D5);
        if nr.pct(25) {
            let described: Vec<usize> = (0..reference.len() - 1).filter(|&i| reference[i].0.contains([' ', '\t'])).collect();
            if !described.is_empty() {
                let a = described[nr.below(described.len() as u64) as usize];
                let b = a + 1 + nr.below((reference.len() - 1 - a) as u64) as usize;
                let id = reference[a].0.split([' ', '\t']).next().unwrap_or("").to_string();
                if !id.is_empty() && !reference.iter().any(|c| c.0 == id) {
                    reference[b].0 = id;
                }
            }
        }
    }
    let small_len = r.range(30, 90) as usize;
    let small_shared: Vec<u8> = random_seq(&mut r, small_len);
    let mut samples = Vec::new();
    // name_style 1: unpadded numbers 1..n in a seeded shuffle (own stream: the sequences stay the
    // same as with style 0)
    let mut numbers: Vec<usize> = (1..=p.n_samples as usize).collect();
    if p.name_style == 1 {
        // pool {i, 10*i}: prefix-related pairs (1/10, 2/20, 12/120) are likely even for 2 samples
        numbers.extend((1..=p.n_samples as usize).map(|i| i * 10));
        numbers.sort();
        numbers.dedup();
        let mut nr = Rng::new(p.seed ^ 0x5348_5546);
        for i in (1..numbers.len()).rev() {
            let j = nr.below(i as u64 + 1) as usize;
            numbers.swap(i, j);
        }
    }
    for s in 0..p.n_samples as usize {
        let sname = match (p.name_style, p.pansn) {
            (1, true) => format!("HG#{}", numbers[s]),
            (1, false) => format!("smp{}", numbers[s]),
            (_, true) => format!("S{s:03}#{}", s % 3),
            (_, false) => format!("smp{s:03}"),
        };
        let mut contigs: Vec<(String, Vec<u8>)> = Vec::new();
        if s == 0 {
            contigs = reference.clone();
        } else {
            for (i, (name, seq)) in reference.iter().enumerate() {
                if p.drop_pct > 0 && r.pct(p.drop_pct as u64) {
                    continue;
                }
                let mut d = if p.identical_pct > 0 && r.pct(p.identical_pct as u64) {
                    seq.clone()
                } else {
                    mutate(&mut r, p, seq)
                };
                if p.rc_pct > 0 && r.pct(p.rc_pct as u64) {
                    d = revcomp(&d);
                }
                contigs.push((name.clone(), d));
                if p.dup_pct > 0 && r.pct(p.dup_pct as u64) {
                    let d2 = mutate(&mut r, p, seq);
                    contigs.push((format!("{}_dup{i}", name.split(' ').next().unwrap()), d2));
                }
            }
            if p.extra_pct > 0 && r.pct(p.extra_pct as u64) {
                let len = contig_len(&mut r, p);
                contigs.push((format!("novel_{s}"), random_seq(&mut r, len)));
            }
            if p.reorder_pct > 0 && r.pct(p.reorder_pct as u64) && contigs.len() > 1 {
                for i in (1..contigs.len()).rev() {
                    let j = r.below(i as u64 + 1) as usize;
                    contigs.swap(i, j);
                }
            }
        }
        if p.shared_small {
            let d = if r.pct(50) { small_shared.clone() } else { mutate(&mut r, p, &small_shared) };
            contigs.push(("shared_small".to_string(), d));
        }
        if contigs.is_empty() {
            contigs.push((format!("only_{s}"), random_seq(&mut r, 50)));
        }
        if p.pansn {
            for (n, _) in contigs.iter_mut() {
                *n = format!("{sname}#{n}");
            }
        }
        samples.push(SampleModel { name: sname, contigs });
    }
    Workload { samples, pansn: p.pansn }
}
