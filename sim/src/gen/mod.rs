pub mod fasta;
pub mod genome;
