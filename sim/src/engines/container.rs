//! Engine D — container-sim: PRNG-generated operation histories against `Archive` on the sim
//! disk (write, flush, close, reopen, read in any order), checked operation by operation
//! against a trivial model (`Vec<Stream>` + pending buffered parts).

use crate::seed::{self, Rng};
use crate::simrun::run_plain;
use ragc_common::verif::{FaultPlan, World};
use ragc_common::Archive;
use serde::{Deserialize, Serialize};
use std::collections::BTreeMap;

pub const PATH: &str = "/sim/container.agc";

#[derive(Clone, Debug, Serialize, Deserialize, PartialEq)]
pub struct Blob {
    pub len: u32,
    pub seed: u64,
}

impl Blob {
    pub fn bytes(&self) -> Vec<u8> {
        let mut r = Rng::new(self.seed);
        let mut v = Vec::with_capacity(self.len as usize);
        let mode = self.seed % 3;
        while v.len() < self.len as usize {
            let x = r.next();
            match mode {
                0 => v.extend_from_slice(&x.to_le_bytes()),
                1 => v.push((x % 4) as u8),
                _ => v.push(0xFF),
            }
        }
        v.truncate(self.len as usize);
        v
    }
}

#[derive(Clone, Debug, Serialize, Deserialize, PartialEq)]
pub enum WOp {
    Register(String),
    AddPart { stream: u32, data: Blob, meta: u64 },
    AddBuffered { stream: u32, data: Blob, meta: u64 },
    Flush,
    SetRawSize { stream: u32, size: u64 },
}

#[derive(Clone, Debug, Serialize, Deserialize, PartialEq)]
pub enum ROp {
    Names,
    StreamId(String),
    NumParts(u32),
    RawSize(u32),
    /// sequential cursor
    Next(u32),
    ById { stream: u32, part: u32 },
}

#[derive(Clone, Debug, Serialize, Deserialize, PartialEq)]
pub struct ContainerSpec {
    pub wops: Vec<WOp>,
    pub rops: Vec<ROp>,
    pub bufwriter_cap: u64,
    pub short_write_pct: u8,
    pub eintr_write_pct: u8,
    pub short_read_pct: u8,
    pub eintr_read_pct: u8,
    pub fault_seed: u64,
}

fn boundary_u64(r: &mut Rng) -> u64 {
    match r.below(12) {
        0 => 0,
        1 => 1,
        2 => 255,
        3 => 256,
        4 => 65535,
        5 => 65536,
        6 => (1u64 << (8 * r.range(3, 7))) - 1,
        7 => 1u64 << (8 * r.range(3, 7)),
        8 => u64::MAX,
        9 => u64::MAX - 1,
        _ => r.next() >> r.below(64),
    }
}

fn name(r: &mut Rng) -> String {
    match r.below(6) {
        0 => "collection-samples".into(),
        1 => format!("x{}d", r.below(40)),
        2 => format!("x{}r", r.below(40)),
        3 => {
            // any printable ASCII
            let n = r.range(1, 24);
            (0..n).map(|_| (32 + r.below(95)) as u8 as char).collect()
        }
        4 => "params".into(),
        _ => format!("s{}", r.below(12)),
    }
}

pub fn generate(run_seed: u64) -> ContainerSpec {
    let mut s = seed::streams(run_seed);
    let w = &mut s.workload;
    let c = &mut s.config;
    let n = match c.below(10) {
        0..=2 => w.range(1, 6),
        3..=7 => w.range(7, 40),
        _ => w.range(41, 160),
    };
    let max_len: u64 = *c.pick(&[0u64, 8, 64, 1000, 1000, 65536]);
    let mut wops = Vec::new();
    let mut nstreams = 0u32;
    for _ in 0..n {
        let r = w.below(100);
        if nstreams == 0 || r < 18 {
            wops.push(WOp::Register(name(w)));
            nstreams += 1; // upper bound (repeats return an existing id)
            continue;
        }
        // ids slightly out of range now and then (must be rejected without effect)
        let stream = if w.pct(3) { nstreams + w.below(3) as u32 } else { w.below(nstreams as u64) as u32 };
        let len = if w.pct(15) { 0 } else { w.range(0, max_len) as u32 };
        let data = Blob { len, seed: w.next() };
        match r {
            18..=49 => wops.push(WOp::AddPart { stream, data, meta: boundary_u64(w) }),
            50..=84 => wops.push(WOp::AddBuffered { stream, data, meta: boundary_u64(w) }),
            85..=92 => wops.push(WOp::Flush),
            _ => wops.push(WOp::SetRawSize { stream, size: boundary_u64(w) }),
        }
    }
    let nr = w.range(1, 60);
    let mut rops = Vec::new();
    for _ in 0..nr {
        let stream = if w.pct(4) { nstreams + w.below(3) as u32 } else { w.below(nstreams.max(1) as u64) as u32 };
        rops.push(match w.below(10) {
            0 => ROp::Names,
            1 => ROp::StreamId(name(w)),
            2 => ROp::NumParts(stream),
            3 => ROp::RawSize(stream),
            4..=6 => ROp::Next(stream),
            _ => ROp::ById { stream, part: w.below(12) as u32 },
        });
    }
    let faulty = c.pct(50);
    ContainerSpec {
        wops,
        rops,
        bufwriter_cap: if faulty { *c.pick(&[1u64, 2, 7, 64, 4096]) } else { 4 << 20 },
        short_write_pct: if faulty { *s.fault.pick(&[0u8, 20, 60]) } else { 0 },
        eintr_write_pct: if faulty { *s.fault.pick(&[0u8, 10, 30]) } else { 0 },
        short_read_pct: if faulty { *s.fault.pick(&[0u8, 20, 60]) } else { 0 },
        eintr_read_pct: if faulty { *s.fault.pick(&[0u8, 10, 30]) } else { 0 },
        fault_seed: s.fault.next(),
    }
}

#[derive(Default, Clone)]
struct MStream {
    name: String,
    raw_size: u64,
    parts: Vec<(Vec<u8>, u64)>,
    cursor: usize,
}

pub struct ContainerRun {
    pub violation: Option<(String, String)>,
    pub ops: u64,
    pub parts_written: u64,
    pub bytes_written: u64,
    pub faults: BTreeMap<&'static str, u64>,
    pub writer_seeks: u64,
    pub non_append_writes: u64,
    pub history_digest: u64,
    pub streams: u64,
}

pub fn execute(spec: &ContainerSpec) -> ContainerRun {
    let mut world = World::new();
    world.knobs.bufwriter_cap = spec.bufwriter_cap as usize;
    // reader buffer: the shipped 8 KiB, or (faulty configurations) a small one so that a reader
    // has to go back to the file for almost every part
    world.knobs.bufreader_cap = if spec.bufwriter_cap != 4 << 20 { [1usize, 7, 64, 512, 8192][(spec.fault_seed % 5) as usize] } else { 8192 };
    world.faults = FaultPlan {
        short_write_pct: spec.short_write_pct,
        eintr_write_pct: spec.eintr_write_pct,
        short_read_pct: spec.short_read_pct,
        eintr_read_pct: spec.eintr_read_pct,
        rng: spec.fault_seed,
        ..Default::default()
    };
    let spec2 = spec.clone();
    let (res, world) = run_plain(world, move || -> Result<(u64, u64, u64), (String, String)> {
        let spec = spec2;
        macro_rules! bad {
            ($class:expr, $($arg:tt)*) => { return Err(($class.to_string(), format!($($arg)*))) };
        }
        // ---------------- write phase
        let mut model: Vec<MStream> = Vec::new();
        let mut pending: BTreeMap<usize, Vec<(Vec<u8>, u64)>> = BTreeMap::new();
        let mut a = Archive::new_writer();
        a.open(PATH).map_err(|e| ("io".to_string(), format!("open for writing: {e:#}")))?;
        let mut parts_written = 0u64;
        for (i, op) in spec.wops.iter().enumerate() {
            match op {
                WOp::Register(n) => {
                    let id = a.register_stream(n);
                    let want = match model.iter().position(|s| &s.name == n) {
                        Some(p) => p,
                        None => {
                            model.push(MStream { name: n.clone(), ..Default::default() });
                            model.len() - 1
                        }
                    };
                    if id != want {
                        bad!("stream-id", "op {i}: register_stream({n:?}) returned {id}, expected {want}");
                    }
                }
                WOp::AddPart { stream, data, meta } => {
                    let bytes = data.bytes();
                    let r = a.add_part(*stream as usize, &bytes, *meta);
                    if (*stream as usize) < model.len() {
                        if let Err(e) = r {
                            bad!("io", "op {i}: add_part failed without an injected failing fault: {e:#}");
                        }
                        model[*stream as usize].parts.push((bytes, *meta));
                        parts_written += 1;
                    } else if r.is_ok() {
                        bad!("invalid-id-accepted", "op {i}: add_part on stream {stream} of {} succeeded", model.len());
                    }
                }
                WOp::AddBuffered { stream, data, meta } => {
                    // out-of-range ids are not generated for buffered adds (the API has no
                    // error channel there)
                    let sid = (*stream as usize).min(model.len() - 1);
                    let bytes = data.bytes();
                    a.add_part_buffered(sid, bytes.clone(), *meta);
                    pending.entry(sid).or_default().push((bytes, *meta));
                }
                WOp::Flush => {
                    a.flush_buffers().map_err(|e| ("io".to_string(), format!("op {i}: flush_buffers: {e:#}")))?;
                    for (sid, parts) in std::mem::take(&mut pending) {
                        for p in parts {
                            model[sid].parts.push(p);
                            parts_written += 1;
                        }
                    }
                }
                WOp::SetRawSize { stream, size } => {
                    a.set_raw_size(*stream as usize, *size);
                    if (*stream as usize) < model.len() {
                        model[*stream as usize].raw_size = *size;
                    }
                }
            }
        }
        // a flush before close, as the property requires
        a.flush_buffers().map_err(|e| ("io".to_string(), format!("final flush_buffers: {e:#}")))?;
        for (sid, parts) in std::mem::take(&mut pending) {
            for p in parts {
                model[sid].parts.push(p);
                parts_written += 1;
            }
        }
        a.close().map_err(|e| ("io".to_string(), format!("close: {e:#}")))?;
        drop(a);

        // ---------------- read phase
        let mut rd = Archive::new_reader();
        rd.open(PATH).map_err(|e| ("reopen-failed".to_string(), format!("{e:#}")))?;
        // full structural comparison first
        let names = rd.get_stream_names();
        let want: Vec<String> = model.iter().map(|s| s.name.clone()).collect();
        if names != want {
            bad!("stream-names", "reopened archive lists {:?}, expected {:?}", names, want);
        }
        for (sid, ms) in model.iter().enumerate() {
            if rd.get_stream_id(&ms.name) != Some(sid) {
                bad!("stream-id", "get_stream_id({:?}) = {:?}, expected {sid}", ms.name, rd.get_stream_id(&ms.name));
            }
            if rd.get_num_parts(sid) != ms.parts.len() {
                bad!("part-count", "stream {sid} ({:?}): {} parts, expected {}", ms.name, rd.get_num_parts(sid), ms.parts.len());
            }
            if rd.get_raw_size(sid) != ms.raw_size {
                bad!("raw-size", "stream {sid}: raw size {}, expected {}", rd.get_raw_size(sid), ms.raw_size);
            }
        }
        let check_part = |what: &str, got: &(Vec<u8>, u64), exp: &(Vec<u8>, u64)| -> Result<(), (String, String)> {
            if exp.0.is_empty() {
                if !got.0.is_empty() || got.1 != 0 {
                    return Err(("empty-part".into(), format!("{what}: empty part read back as {} bytes, metadata {}", got.0.len(), got.1)));
                }
            } else {
                if got.0 != exp.0 {
                    return Err(("part-bytes".into(), format!("{what}: {} bytes read, {} written (first difference at {:?})", got.0.len(), exp.0.len(), got.0.iter().zip(exp.0.iter()).position(|(a, b)| a != b))));
                }
                if got.1 != exp.1 {
                    return Err(("part-metadata".into(), format!("{what}: metadata {} read, {} written", got.1, exp.1)));
                }
            }
            Ok(())
        };
        for (i, op) in spec.rops.iter().enumerate() {
            match op {
                ROp::Names => {
                    if rd.get_stream_names() != want {
                        bad!("stream-names", "rop {i}: names changed");
                    }
                }
                ROp::StreamId(n) => {
                    let exp = model.iter().position(|s| &s.name == n);
                    if rd.get_stream_id(n) != exp {
                        bad!("stream-id", "rop {i}: get_stream_id({n:?}) = {:?}, expected {:?}", rd.get_stream_id(n), exp);
                    }
                }
                ROp::NumParts(s) => {
                    let exp = model.get(*s as usize).map(|m| m.parts.len()).unwrap_or(0);
                    if rd.get_num_parts(*s as usize) != exp {
                        bad!("part-count", "rop {i}: get_num_parts({s}) = {}, expected {exp}", rd.get_num_parts(*s as usize));
                    }
                }
                ROp::RawSize(s) => {
                    let exp = model.get(*s as usize).map(|m| m.raw_size).unwrap_or(0);
                    if rd.get_raw_size(*s as usize) != exp {
                        bad!("raw-size", "rop {i}: get_raw_size({s}) = {}, expected {exp}", rd.get_raw_size(*s as usize));
                    }
                }
                ROp::Next(s) => {
                    let r = rd.get_part(*s as usize);
                    match model.get_mut(*s as usize) {
                        None => {
                            if r.is_ok() {
                                bad!("invalid-id-accepted", "rop {i}: get_part({s}) succeeded on an unknown stream");
                            }
                        }
                        Some(ms) => {
                            let r = r.map_err(|e| ("read-failed".to_string(), format!("rop {i}: get_part({s}): {e:#}")))?;
                            if ms.cursor >= ms.parts.len() {
                                if r.is_some() {
                                    bad!("cursor", "rop {i}: get_part({s}) returned a part past the end");
                                }
                            } else {
                                let Some(got) = r else { bad!("cursor", "rop {i}: get_part({s}) returned None at part {} of {}", ms.cursor, ms.parts.len()) };
                                check_part(&format!("rop {i}: get_part({s}) #{}", ms.cursor), &got, &ms.parts[ms.cursor])?;
                                ms.cursor += 1;
                            }
                        }
                    }
                }
                ROp::ById { stream, part } => {
                    let r = rd.get_part_by_id(*stream as usize, *part as usize);
                    let exp = model.get(*stream as usize).and_then(|m| m.parts.get(*part as usize));
                    match exp {
                        None => {
                            if r.is_ok() {
                                bad!("invalid-id-accepted", "rop {i}: get_part_by_id({stream},{part}) succeeded");
                            }
                        }
                        Some(e) => {
                            let got = r.map_err(|e| ("read-failed".to_string(), format!("rop {i}: get_part_by_id({stream},{part}): {e:#}")))?;
                            check_part(&format!("rop {i}: get_part_by_id({stream},{part})"), &got, e)?;
                        }
                    }
                }
            }
        }
        // finally every part of every stream by id, in reverse stream order
        for (sid, ms) in model.iter().enumerate().rev() {
            for (pid, e) in ms.parts.iter().enumerate() {
                let got = rd
                    .get_part_by_id(sid, pid)
                    .map_err(|e| ("read-failed".to_string(), format!("get_part_by_id({sid},{pid}): {e:#}")))?;
                check_part(&format!("final sweep ({sid},{pid})"), &got, e)?;
            }
        }
        Ok((parts_written, model.len() as u64, (spec.wops.len() + spec.rops.len()) as u64))
    });
    let mut run = ContainerRun {
        violation: None,
        ops: 0,
        parts_written: 0,
        bytes_written: world.bytes_written,
        faults: world.fault_fired.clone(),
        writer_seeks: world.writer_seeks,
        non_append_writes: world.non_append_writes,
        history_digest: seed::fnv64(serde_json::to_string(&(&spec.wops, &spec.rops)).unwrap().as_bytes()),
        streams: 0,
    };
    match res {
        Ok(Ok((pw, st, ops))) => {
            run.parts_written = pw;
            run.streams = st;
            run.ops = ops;
        }
        Ok(Err(v)) => run.violation = Some(v),
        Err(p) => run.violation = Some(("panic".into(), p)),
    }
    if run.violation.is_none() && (run.writer_seeks > 0 || run.non_append_writes > 0) {
        run.violation = Some(("writer-not-append-only".into(), format!("{} seeks, {} non-append writes on the writer handle", run.writer_seeks, run.non_append_writes)));
    }
    run
}
