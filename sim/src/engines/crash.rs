//! Engine E — crash-point enumeration: every strict prefix of a finished archive is
//! materialised on the sim disk and must be refused by `open` with an error value.

use crate::alloc;
use crate::simrun::run_plain;
use ragc_common::verif::World;
use ragc_common::Archive;
use ragc_core::{Decompressor, DecompressorConfig};

pub const PATH: &str = "/sim/crash.agc";

#[derive(Debug, Clone, PartialEq)]
pub enum Verdict {
    Refused,
    Panic(String),
    Hang(String),
    /// open succeeded and samples could be listed/extracted
    Readable(String),
    /// open returned Ok but nothing could be read from the handle
    OpenOkNothingReadable,
}

pub struct PrefixResult {
    pub container: Verdict,
    pub reader: Verdict,
    /// `clone_for_thread()` on a handle that was opened while the file was still complete (a
    /// sample of the prefixes): a third way to get a handle for what is now a truncated file
    pub clone_of_live_handle: Option<Verdict>,
    pub io_calls: u64,
    pub bytes_read: u64,
    pub max_alloc: usize,
}

/// Judge one prefix of `full` (length n < full.len()).
pub fn judge_prefix(full: &[u8], n: usize, case_tag: &str) -> PrefixResult {
    PrefixJudge::new(full, case_tag).judge(n)
}

/// Judges prefixes of one archive. The file lives on ONE sim disk and is cut in place, so
/// enumerating n = len-1, len-2, ... 0 costs no copy per prefix (archives of several 100 KiB are
/// enumerated completely); a larger n than the current one restores the bytes from `full`.
pub struct PrefixJudge<'a> {
    full: &'a [u8],
    tag: String,
    world: Option<World>,
    /// opened on the complete file; its SimFile handles share the bytes that are cut later
    live: Option<Decompressor>,
}

impl<'a> PrefixJudge<'a> {
    pub fn new(full: &'a [u8], case_tag: &str) -> Self {
        let mut world = World::new();
        // reader buffer capacity varies with the case (shipped: 8 KiB)
        world.knobs.bufreader_cap = [8192usize, 8192, 8192, 512, 64][(crate::seed::fnv64(case_tag.as_bytes()) % 5) as usize];
        world.put_file(PATH, full.to_vec());
        let (live, world) = run_plain(world, || Decompressor::open(PATH, DecompressorConfig { verbosity: 0 }).ok());
        PrefixJudge { full, tag: case_tag.to_string(), world: Some(world), live: live.ok().flatten() }
    }

    fn cut(world: &mut World, full: &[u8], n: usize) {
        let f = world.files.get(PATH).expect("crash file").clone();
        let mut v = f.lock().unwrap();
        if v.len() >= n {
            v.truncate(n);
        } else {
            *v = full[..n].to_vec();
        }
        world.io_calls = 0;
        world.bytes_read = 0;
        world.io_budget = Some(1_000_000);
        world.io_budget_tripped = false;
    }

    pub fn judge(&mut self, n: usize) -> PrefixResult {
        let full = self.full;
        let len = full.len() as u64;
        let byte_budget = 64 * len + (1 << 20);
        let alloc_limit = 16 * full.len() + (1 << 20);
        alloc::set_case(&format!("{{\"property\":\"C14\",\"case\":\"{}\",\"prefix\":{n},\"len\":{len}}}", self.tag));
        let mut world = self.world.take().expect("judge world");
        Self::cut(&mut world, full, n);

        // 1. container level. If the container accepts the prefix, the handle is walked: reading
        // its parts must not panic, hang or ask for a garbage-sized buffer either.
        alloc::arm(alloc_limit);
        let (res, world) = run_plain(world, || {
            let mut a = Archive::new_reader();
            match a.open(PATH) {
                Ok(()) => {
                    let names = a.get_stream_names();
                    let mut parts_read = 0usize;
                    'walk: for sid in 0..a.get_num_streams() {
                        let _ = a.get_raw_size(sid);
                        for pid in 0..a.get_num_parts(sid).min(64) {
                            let _ = a.get_part_by_id(sid, pid);
                            parts_read += 1;
                            if parts_read >= 256 {
                                break 'walk;
                            }
                        }
                    }
                    Some(names.len())
                }
                Err(_) => None,
            }
        });
        let max1 = alloc::disarm();
        let container = match res {
            Err(p) => Verdict::Panic(p),
            Ok(None) => Verdict::Refused,
            Ok(Some(_)) => Verdict::OpenOkNothingReadable,
        };
        let container = hang_or(container, &world, byte_budget);
        let (io1, br1) = (world.io_calls, world.bytes_read);

        // 2. user level
        let mut world = world;
        world.io_calls = 0;
        world.bytes_read = 0;
        world.io_budget_tripped = false;
        alloc::arm(alloc_limit);
        let (res, world) = run_plain(world, || -> Option<String> {
            match Decompressor::open(PATH, DecompressorConfig { verbosity: 0 }) {
                Err(_) => None,
                Ok(mut d) => {
                    let samples = d.list_samples();
                    let mut readable = Vec::new();
                    for s in samples.iter().take(3) {
                        if let Ok(c) = d.get_sample(s) {
                            readable.push(format!("{s}:{} contigs", c.len()));
                        }
                    }
                    Some(format!("listed {} samples; extracted {:?}", samples.len(), readable))
                }
            }
        });
        let max2 = alloc::disarm();
        let reader = match res {
            Err(p) => Verdict::Panic(p),
            Ok(None) => Verdict::Refused,
            Ok(Some(d)) => Verdict::Readable(d),
        };
        let reader = hang_or(reader, &world, byte_budget);
        // 3. a handle that was opened before the truncation is cloned for another thread
        let sampled = n < 10 || n + 12 >= full.len() || n % 61 == 0;
        let mut world = world;
        let mut clone_of_live_handle = None;
        if sampled {
            if let Some(live) = self.live.take() {
                world.io_calls = 0;
                world.bytes_read = 0;
                world.io_budget_tripped = false;
                alloc::arm(alloc_limit);
                let (res, w2) = run_plain(world, || -> (Option<String>, Decompressor) {
                    let r = match live.clone_for_thread() {
                        Err(_) => None,
                        Ok(mut d) => {
                            let samples = d.list_samples();
                            let mut readable = Vec::new();
                            for s in samples.iter().take(3) {
                                if let Ok(c) = d.get_sample(s) {
                                    readable.push(format!("{s}:{} contigs", c.len()));
                                }
                            }
                            Some(format!("clone_for_thread() of a handle opened before the truncation: listed {} samples; extracted {:?}", samples.len(), readable))
                        }
                    };
                    (r, live)
                });
                let _ = alloc::disarm();
                world = w2;
                let v = match res {
                    Err(p) => Verdict::Panic(p),
                    Ok((None, live)) => {
                        self.live = Some(live);
                        Verdict::Refused
                    }
                    Ok((Some(d), live)) => {
                        self.live = Some(live);
                        Verdict::Readable(d)
                    }
                };
                clone_of_live_handle = Some(hang_or(v, &world, byte_budget));
            }
        }
        let out = PrefixResult {
            container,
            reader,
            clone_of_live_handle,
            io_calls: io1 + world.io_calls,
            bytes_read: br1 + world.bytes_read,
            max_alloc: max1.max(max2),
        };
        self.world = Some(world);
        out
    }
}

fn hang_or(v: Verdict, world: &World, byte_budget: u64) -> Verdict {
    if world.io_budget_tripped {
        return Verdict::Hang(format!("more than 1e6 file calls during one open ({} calls)", world.io_calls));
    }
    if world.bytes_read > byte_budget {
        return Verdict::Hang(format!("{} bytes read during one open (budget {})", world.bytes_read, byte_budget));
    }
    v
}
