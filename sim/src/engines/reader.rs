//! Engine C — reader-sim: operation histories on one Decompressor handle and on
//! `clone_for_thread` handles owned by shuttle tasks (SimFile reads are scheduling points);
//! every answer must equal the answer of a fresh handle asked only that question.

use crate::sched::SchedSpec;
use crate::seed::{self, Rng};
use crate::simrun::{run_batch, run_plain, Job, Outcome};
use ragc_common::verif::{FaultPlan, World};
use ragc_core::{Decompressor, DecompressorConfig};
use serde::{Deserialize, Serialize};
use std::sync::Arc;

pub const PATH: &str = "/sim/out.agc";

#[derive(Clone, Debug, Serialize, Deserialize, PartialEq)]
pub enum Q {
    ListSamples,
    ListContigs(String),
    GetSample(String),
    GetContig(String, String),
    GetRange(String, String, u64, u64),
    GetLength(String, String),
    SegDesc(String, String),
    AllSegments,
    GroupStats,
    RefSegment(u32),
    Prefix(String),
}

/// Answers are compared as digests; errors compare as "is error" (messages are not compared).
#[derive(Clone, Debug, PartialEq)]
pub enum Ans {
    Ok(u64, String),
    Err,
}

fn dig<T: std::fmt::Debug>(v: &T) -> Ans {
    let s = format!("{v:?}");
    let short: String = s.chars().take(70).collect();
    Ans::Ok(seed::fnv64(s.as_bytes()), short)
}

pub fn ask(d: &mut Decompressor, q: &Q) -> Ans {
    match q {
        Q::ListSamples => dig(&d.list_samples()),
        Q::ListContigs(s) => d.list_contigs(s).map(|v| dig(&v)).unwrap_or(Ans::Err),
        Q::GetSample(s) => d.get_sample(s).map(|v| dig(&v)).unwrap_or(Ans::Err),
        Q::GetContig(s, c) => d.get_contig(s, c).map(|v| dig(&v)).unwrap_or(Ans::Err),
        Q::GetRange(s, c, a, b) => d.get_contig_range(s, c, *a as usize, *b as usize).map(|v| dig(&v)).unwrap_or(Ans::Err),
        Q::GetLength(s, c) => d.get_contig_length(s, c).map(|v| dig(&v)).unwrap_or(Ans::Err),
        Q::SegDesc(s, c) => d
            .get_contig_segments_desc(s, c)
            .map(|v| dig(&v.iter().map(|x| (x.group_id, x.in_group_id, x.is_rev_comp, x.raw_length)).collect::<Vec<_>>()))
            .unwrap_or(Ans::Err),
        Q::AllSegments => d
            .get_all_segments()
            .map(|v| {
                dig(&v
                    .iter()
                    .map(|(s, c, segs)| (s.clone(), c.clone(), segs.iter().map(|x| (x.group_id, x.in_group_id, x.is_rev_comp, x.raw_length)).collect::<Vec<_>>()))
                    .collect::<Vec<_>>())
            })
            .unwrap_or(Ans::Err),
        Q::GroupStats => d.get_group_statistics().map(|v| dig(&v)).unwrap_or(Ans::Err),
        Q::RefSegment(g) => d.get_reference_segment(*g).map(|v| dig(&v)).unwrap_or(Ans::Err),
        Q::Prefix(p) => dig(&d.list_samples_with_prefix(p)),
    }
}

thread_local! {
    /// diagnostics level of the handles opened by `open()` (stderr only; must not change answers)
    pub static READER_VERBOSITY: std::cell::Cell<u32> = const { std::cell::Cell::new(0) };
}

fn open() -> Result<Decompressor, String> {
    let verbosity = READER_VERBOSITY.with(|v| v.get());
    Decompressor::open(PATH, DecompressorConfig { verbosity }).map_err(|e| format!("{e:#}"))
}

/// The question alphabet for one archive: existing first/last-batch samples, unknown names,
/// LZ / raw / unknown groups.
pub fn alphabet(bytes: &[u8]) -> Result<Vec<Q>, String> {
    let mut world = World::new();
    world.put_file(PATH, bytes.to_vec());
    let (res, _) = run_plain(world, || -> Result<Vec<Q>, String> {
        let mut d = open()?;
        let samples = d.list_samples();
        let first = samples.first().cloned().ok_or("no samples")?;
        let last = samples.last().cloned().unwrap();
        let c_first = d.list_contigs(&first).map_err(|e| format!("{e:#}"))?;
        let mut d2 = open()?;
        let c_last = d2.list_contigs(&last).map_err(|e| format!("{e:#}"))?;
        let c0 = c_first.first().cloned().ok_or("no contigs")?;
        let cl = c_last.last().cloned().ok_or("no contigs")?;
        // group ids in use
        let mut d3 = open()?;
        let segs = d3.get_all_segments().map_err(|e| format!("{e:#}"))?;
        let mut lz = None;
        let mut raw = None;
        for (_, _, ss) in &segs {
            for s in ss {
                if s.group_id >= 16 && lz.is_none() {
                    lz = Some(s.group_id);
                }
                if s.group_id < 16 && raw.is_none() {
                    raw = Some(s.group_id);
                }
            }
        }
        let unk = "no_such_name".to_string();
        let pre: String = first.chars().take(2).collect();
        let mut qs = vec![
            Q::ListSamples,
            Q::ListContigs(first.clone()),
            Q::ListContigs(last.clone()),
            Q::ListContigs(unk.clone()),
            Q::GetSample(first.clone()),
            Q::GetSample(last.clone()),
            Q::GetSample(unk.clone()),
            Q::GetContig(first.clone(), c0.clone()),
            Q::GetContig(last.clone(), cl.clone()),
            Q::GetContig(first.clone(), unk.clone()),
            Q::GetContig(unk.clone(), c0.clone()),
            Q::GetRange(first.clone(), c0.clone(), 1, 17),
            Q::GetRange(last.clone(), cl.clone(), 0, 5),
            Q::GetLength(first.clone(), c0.clone()),
            Q::GetLength(unk.clone(), c0.clone()),
            Q::SegDesc(first.clone(), c0.clone()),
            Q::SegDesc(last.clone(), unk.clone()),
            Q::AllSegments,
            Q::GroupStats,
            Q::RefSegment(999_999),
            Q::Prefix(String::new()),
            Q::Prefix(pre),
        ];
        if let Some(g) = lz {
            qs.push(Q::RefSegment(g));
        }
        if let Some(g) = raw {
            qs.push(Q::RefSegment(g));
        }
        Ok(qs)
    });
    match res {
        Ok(r) => r,
        Err(p) => Err(format!("panic while building the alphabet: {p}")),
    }
}

/// Answers of a FRESH handle asked only that question. A panic here is reported as such.
pub fn fresh_answers(bytes: &[u8], qs: &[Q]) -> Vec<Result<Ans, String>> {
    qs.iter()
        .map(|q| {
            let mut world = World::new();
            world.put_file(PATH, bytes.to_vec());
            let q = q.clone();
            let (res, _) = run_plain(world, move || {
                let mut d = open().expect("open");
                ask(&mut d, &q)
            });
            res
        })
        .collect()
}

pub struct HistoryResult {
    /// (position in history, what went wrong)
    pub bad: Option<(usize, String, String)>,
    pub io_calls: u64,
    /// the transient read error was actually delivered
    pub eio_fired: bool,
}

/// Run one history (indices into `qs`) on a single fresh handle; compare each answer.
pub fn run_history(bytes: &Arc<Vec<u8>>, qs: &[Q], fresh: &[Result<Ans, String>], hist: &[usize], faults: Option<(u8, u8, u64)>) -> HistoryResult {
    run_history_eio(bytes, qs, fresh, hist, faults, None, 8192)
}

/// `eio` = (position in the history, n): the n-th read call the archive handle makes during
/// that query fails ONCE with EIO (transient medium error). That query may answer Err; it and
/// every other query must otherwise answer like a fresh handle on a healthy file.
pub fn run_history_eio(bytes: &Arc<Vec<u8>>, qs: &[Q], fresh: &[Result<Ans, String>], hist: &[usize], faults: Option<(u8, u8, u64)>, eio: Option<(usize, u64)>, bufreader_cap: usize) -> HistoryResult {
    let mut world = World::new();
    // capacity of the archive reader's BufReader (shipped: 8 KiB, larger than most simulated
    // archives: with the shipped value a handle reads the file once and never again)
    world.knobs.bufreader_cap = bufreader_cap.max(1);
    if eio.is_some() {
        world.faults.target = PATH.to_string();
    }
    world.files.insert(PATH.to_string(), Arc::new(std::sync::Mutex::new(bytes.as_ref().clone())));
    if let Some((short, eintr, seed)) = faults {
        world.faults = FaultPlan { short_read_pct: short, eintr_read_pct: eintr, rng: seed, target: world.faults.target.clone(), ..Default::default() };
    }
    let qs2: Vec<Q> = hist.iter().map(|&i| qs[i].clone()).collect();
    // a quarter of the histories run on a verbose handle (diagnostics on stderr only)
    let hsum: usize = hist.iter().enumerate().map(|(i, &x)| (i + 1) * (x + 3)).sum();
    let verbosity = match hsum % 8 { 0 => 1, 1 => 2, _ => 0 };
    let (res, world) = run_plain(world, move || {
        READER_VERBOSITY.with(|v| v.set(verbosity));
        let opened = open();
        READER_VERBOSITY.with(|v| v.set(0));
        let mut d = match opened {
            Ok(d) => d,
            Err(e) => return vec![Err(e)],
        };
        let mut out = Vec::new();
        for (qpos, q) in qs2.iter().enumerate() {
            if let Some((at, n)) = eio {
                ragc_common::verif::with(|w| {
                    w.faults.read_fail_at_call = if at == qpos { Some(w.faults.read_calls + n) } else { None };
                });
            }
            let r = std::panic::catch_unwind(std::panic::AssertUnwindSafe(|| ask(&mut d, q)));
            match r {
                Ok(a) => out.push(Ok(a)),
                Err(p) => {
                    let msg = if let Some(s) = p.downcast_ref::<String>() { s.clone() } else if let Some(s) = p.downcast_ref::<&str>() { s.to_string() } else { "panic".into() };
                    let loc = crate::simrun::take_panic_location().unwrap_or_default();
                    out.push(Err(format!("{msg} @ {loc}")));
                    break;
                }
            }
        }
        out
    });
    let io_calls = world.io_calls;
    let eio_fired = world.fault_fired.get("eio_read_call").copied().unwrap_or(0) > 0;
    let answers = match res {
        Ok(a) => a,
        Err(p) => return HistoryResult { bad: Some((0, "panic".into(), p)), io_calls, eio_fired },
    };
    for (pos, (a, &qi)) in answers.iter().zip(hist.iter()).enumerate() {
        let exp = &fresh[qi];
        match (a, exp) {
            (Err(p), _) => {
                return HistoryResult { bad: Some((pos, "panic".into(), format!("{:?} after {:?} panicked: {p}", qs[qi], hist[..pos].iter().map(|&i| &qs[i]).collect::<Vec<_>>()))), io_calls, eio_fired };
            }
            (Ok(a), Ok(e)) => {
                // the query that met the injected read error may fail, never answer wrongly
                let faulted_here = eio_fired && eio.map(|(at, _)| at == pos).unwrap_or(false);
                if faulted_here && *a == Ans::Err {
                    continue;
                }
                if a != e {
                    return HistoryResult {
                        bad: Some((pos, "history-dependent-answer".into(), format!("{:?} after {:?}: answered {:?}, a fresh handle answers {:?}", qs[qi], hist[..pos].iter().map(|&i| &qs[i]).collect::<Vec<_>>(), a, e))),
                        io_calls,
                        eio_fired,
                    };
                }
            }
            (Ok(_), Err(_)) => {} // the fresh handle itself panicked: reported separately
        }
    }
    HistoryResult { bad: None, io_calls, eio_fired }
}

// ------------------------------------------------------------------------------------------
// concurrent cloned readers

#[derive(Clone, Debug, Serialize, Deserialize, PartialEq)]
pub struct ConcSpec {
    /// per task: indices into the alphabet
    pub scripts: Vec<Vec<u32>>,
    pub sched: SchedSpec,
}

pub fn gen_conc(r: &mut Rng, cfg: &mut Rng, nq: usize) -> ConcSpec {
    let nt = r.range(2, 4) as usize;
    let scripts = (0..nt).map(|_| (0..r.range(1, 6)).map(|_| r.below(nq as u64) as u32).collect()).collect();
    let mut s2 = r.fork(9);
    ConcSpec { scripts, sched: SchedSpec::draw(cfg, &mut s2) }
}

fn io_yield() {
    // a plain scheduling point (not a yield hint): any task may run next
    shuttle::thread::sleep(std::time::Duration::ZERO);
}

struct ConcJob {
    qs: Vec<Q>,
    scripts: Vec<Vec<u32>>,
}

pub struct ConcResult {
    pub outcome: Outcome,
    /// answers[task][i]
    pub answers: Vec<Vec<Ans>>,
    pub steps: u64,
    pub preemptions: u64,
    pub trace_digest: u64,
    pub choices: Vec<u16>,
}

pub fn run_concurrent(bytes: &Arc<Vec<u8>>, qs: &[Q], specs: &[ConcSpec]) -> Vec<ConcResult> {
    let jobs: Vec<Job<ConcJob>> = specs
        .iter()
        .map(|s| {
            let mut world = World::new();
            world.files.insert(PATH.to_string(), Arc::new(std::sync::Mutex::new(bytes.as_ref().clone())));
            world.io_yield = Some(io_yield);
            Job { spec: Arc::new(ConcJob { qs: qs.to_vec(), scripts: s.scripts.clone() }), world, sched: s.sched.clone() }
        })
        .collect();
    let results = run_batch(jobs, 2_000_000, 1 << 20, |j: &ConcJob| -> Vec<Vec<Ans>> {
        let base = open().expect("open");
        let mut handles = Vec::new();
        for sc in j.scripts.iter().skip(1) {
            let mut d = base.clone_for_thread().expect("clone_for_thread");
            let qs: Vec<Q> = sc.iter().map(|&i| j.qs[i as usize].clone()).collect();
            handles.push(ragc_core::verif_sync::thread::spawn(move || qs.iter().map(|q| ask(&mut d, q)).collect::<Vec<Ans>>()));
        }
        let mut base = base;
        let mine: Vec<Ans> = j.scripts[0].iter().map(|&i| ask(&mut base, &j.qs[i as usize])).collect();
        let mut all = vec![mine];
        for h in handles {
            all.push(h.join().expect("reader task panicked"));
        }
        all
    });
    results
        .into_iter()
        .map(|r| ConcResult {
            outcome: r.outcome,
            answers: r.value.unwrap_or_default(),
            steps: r.trace.choices.len() as u64,
            preemptions: r.trace.preemptions,
            trace_digest: r.trace.digest(),
            choices: r.trace.choices,
        })
        .collect()
}
