//! Engine A — pipeline-sim: FASTA files on the sim disk -> the real `create` driver (real
//! StreamingQueueCompressor, workers as shuttle tasks) -> archive bytes on the sim disk ->
//! oracles (round trip, termination, determinism groups).

use crate::gen::fasta::{self, Presentation};
use crate::gen::genome::{self, GenParams, Workload};
use crate::sched::SchedSpec;
use crate::seed::{self, Rng};
use crate::simrun::{run_batch, run_plain, Job, Outcome};
use ragc_common::verif::{Event, FaultPlan, World};
use ragc_core::{Decompressor, DecompressorConfig};
use serde::{Deserialize, Serialize};
use std::collections::BTreeMap;
use std::path::PathBuf;
use std::sync::Arc;

#[derive(Clone, Debug, Serialize, Deserialize, PartialEq)]
pub struct PipeCfg {
    pub k: u32,
    pub segment_size: u32,
    pub min_match_len: u32,
    pub pack_cardinality: u32,
    pub compression_level: i32,
    pub threads: u32,
    /// as given to --queue-capacity
    pub queue_capacity: String,
    pub fallback_frac: f64,
    pub sync_per_sample: bool,
    /// one PanSN file holding every sample (single-file mode) vs one file per sample
    pub single_file: bool,
    pub bufwriter_cap: u64,
    pub meta_zstd_level: Option<i32>,
    /// -v of the CLI / StreamingQueueConfig.verbosity (diagnostics go to stderr; must not change
    /// any result)
    #[serde(default)]
    pub verbosity: u32,
    /// size of the simulated rayon pool (shadow/rayon shim: splitter discovery and the final
    /// partial-pack compression run on this many shuttle tasks); 0 = follow `-t` as shipped
    #[serde(default)]
    pub rayon_pool: u32,
}

#[derive(Clone, Debug, Serialize, Deserialize, PartialEq, Default)]
pub struct BenignFaults {
    pub short_write_pct: u8,
    pub eintr_write_pct: u8,
    pub short_read_pct: u8,
    pub eintr_read_pct: u8,
    pub seed: u64,
}

/// A failing fault on the archive being written.
#[derive(Clone, Debug, Serialize, Deserialize, PartialEq)]
pub struct HardFault {
    /// "offset" (first write reaching byte `at` is cut there, later writes fail),
    /// "write_call" / "flush_call" (the at-th call fails), "read_offset" (input read error)
    pub kind: String,
    pub at: u64,
    /// 28 ENOSPC, 27 EFBIG, 5 EIO
    pub errno: i32,
    /// path suffix the fault applies to
    pub target: String,
}

/// Library-API driver: push every contig, with drain / sync_and_flush calls at generated
/// points (instead of the CLI's fixed call pattern).
#[derive(Clone, Debug, Serialize, Deserialize, PartialEq)]
pub struct ApiPlan {
    /// (after how many pushes, 0 = drain, 1 = sync_and_flush)
    pub calls: Vec<(u32, u8)>,
    pub concatenated: bool,
    /// StreamingQueueConfig.adaptive_mode (library API only; the CLI rejects --adaptive)
    #[serde(default)]
    pub adaptive: bool,
    /// Some(seed): contigs are pushed in an interleaved order - a sample is resumed after contigs
    /// of other samples (A, B, A, A); per-sample contig order and first-seen sample order are kept
    #[serde(default)]
    pub interleave_seed: Option<u64>,
    /// push an EMPTY contig (no bases) before the n-th regular push, for each n listed (C05 only:
    /// a contig of size zero is a legal queue item; the round-trip checks do not use this)
    #[serde(default)]
    pub empty_contigs_before: Vec<u32>,
}

/// Push order of (sample index, contig index) for the library-API driver.
pub fn push_order(plan: &ApiPlan, w: &Workload) -> Vec<(usize, usize)> {
    let mut order = Vec::new();
    let Some(seed) = plan.interleave_seed else {
        for (si, s) in w.samples.iter().enumerate() {
            for ci in 0..s.contigs.len() {
                order.push((si, ci));
            }
        }
        return order;
    };
    let mut r = Rng::new(seed);
    let n = w.samples.len();
    let mut next = vec![0usize; n];
    let mut started = 0usize;
    let mut cur: Option<usize> = None;
    let total: usize = w.samples.iter().map(|s| s.contigs.len()).sum();
    while order.len() < total {
        let open: Vec<usize> = (0..started).filter(|&i| next[i] < w.samples[i].contigs.len()).collect();
        let choice = match (cur, r.below(10)) {
            (Some(c), 0..=5) if next[c] < w.samples[c].contigs.len() => c,
            (_, 6..=7) if !open.is_empty() => open[r.below(open.len() as u64) as usize],
            _ if started < n => {
                started += 1;
                started - 1
            }
            _ => open[r.below(open.len() as u64) as usize],
        };
        order.push((choice, next[choice]));
        next[choice] += 1;
        cur = Some(choice);
    }
    order
}

#[derive(Clone, Debug, Serialize, Deserialize, PartialEq)]
pub struct PipeSpec {
    pub gen: GenParams,
    pub cfg: PipeCfg,
    pub faults: BenignFaults,
    pub presentations: Vec<Presentation>,
    pub sched: SchedSpec,
    #[serde(default)]
    pub hard: Option<HardFault>,
    #[serde(default)]
    pub api: Option<ApiPlan>,
}

pub const ARCHIVE_PATH: &str = "/sim/out.agc";

pub fn draw_cfg(c: &mut Rng, gen: &GenParams, allow_small_queue: bool) -> PipeCfg {
    let k = match c.below(10) {
        0..=5 => c.range(9, 15),
        6..=8 => c.range(16, 24),
        _ => c.range(25, 32),
    } as u32;
    let segment_size = *c.pick(&[50u32, 80, 120, 200, 400, 1000, 2000]);
    let threads = match c.below(10) {
        0..=1 => 1,
        2..=6 => c.range(2, 4),
        _ => c.range(5, 8),
    } as u32;
    let queue_capacity = if allow_small_queue && c.pct(40) {
        // small enough for back-pressure, never smaller than the largest possible contig
        // (a contig larger than the queue is a separate, known-finding scenario)
        let floor = gen.max_len as u64 + 64;
        format!("{}", floor + c.below(4 * floor))
    } else {
        c.pick(&["2G", "1M", "64K", "16M"]).to_string()
    };
    // keep "64K" legal for the largest contigs we generate (max_len <= 6000)
    PipeCfg {
        k,
        segment_size,
        min_match_len: c.range(15, 32) as u32,
        pack_cardinality: *c.pick(&[2u32, 3, 5, 8, 13, 50, 50]),
        compression_level: *c.pick(&[1i32, 3, 3, 9, 17]),
        threads,
        queue_capacity,
        fallback_frac: *c.pick(&[0.0f64, 0.0, 0.05, 0.3]),
        sync_per_sample: c.pct(15),
        single_file: gen.pansn && c.pct(50),
        bufwriter_cap: *c.pick(&[1u64, 7, 512, 4096, 4 << 20, 4 << 20]),
        meta_zstd_level: Some(1),
        verbosity: 0,
        rayon_pool: 0,
    }
}

/// The rayon pool size is drawn from its own stream (adding the dimension did not shift the others).
pub fn draw_rayon_pool(run_seed: u64) -> u32 {
    let mut r = Rng::new(run_seed ^ 0x5241_594F);
    match r.below(100) {
        0..=29 => 0,
        30..=44 => 1,
        45..=84 => r.range(2, 4) as u32,
        _ => r.range(5, 8) as u32,
    }
}

/// Verbosity is drawn from its own stream (adding the dimension did not shift the others).
pub fn draw_verbosity(run_seed: u64) -> u32 {
    let mut r = Rng::new(run_seed ^ 0x5645_5242);
    match r.below(100) {
        0..=74 => 0,
        75..=84 => 1,
        85..=94 => 2,
        _ => 3,
    }
}

pub fn generate(run_seed: u64) -> PipeSpec {
    generate_with(run_seed, 0)
}

/// Library-API variant: the same workload/config space, driven through push / drain /
/// sync_and_flush / finalize with the extra calls at generated points.
pub fn generate_api(run_seed: u64, oversize_pct: u64) -> PipeSpec {
    let mut spec = generate_with(run_seed, oversize_pct);
    let mut r = Rng::new(run_seed ^ 0xA91);
    let w = genome::generate(&spec.gen);
    let total: u32 = w.samples.iter().map(|s| s.contigs.len() as u32).sum();
    let ncalls = r.range(0, 6);
    let mut calls: Vec<(u32, u8)> = (0..ncalls).map(|_| (r.below(total as u64 + 1) as u32, r.below(2) as u8)).collect();
    calls.sort();
    let concatenated = r.pct(50);
    let adaptive = r.pct(20);
    // own stream: existing run indices keep their other dimensions
    let mut ri = Rng::new(run_seed ^ 0x1EAF_A91);
    let interleave_seed = if ri.pct(15) { Some(ri.next()) } else { None };
    spec.api = Some(ApiPlan { calls, concatenated, adaptive, interleave_seed, empty_contigs_before: Vec::new() });
    spec
}

/// `oversize_pct`: share of runs whose queue capacity is smaller than one contig.
pub fn generate_with(run_seed: u64, oversize_pct: u64) -> PipeSpec {
    let mut s = seed::streams(run_seed);
    let gen = GenParams::draw(&mut s.workload, &mut s.config);
    let mut cfg = draw_cfg(&mut s.config, &gen, true);
    cfg.verbosity = draw_verbosity(run_seed);
    cfg.rayon_pool = draw_rayon_pool(run_seed);
    if oversize_pct > 0 && s.config.pct(oversize_pct) {
        cfg.queue_capacity = format!("{}", s.config.range(1, (gen.max_len as u64 / 4).max(2)));
    }
    let nfiles = if cfg.single_file { 1 } else { gen.n_samples as usize };
    let mut presentations = Vec::new();
    let one_style = s.config.pct(50);
    let base = Presentation::draw(&mut s.workload);
    for _ in 0..nfiles {
        if one_style {
            presentations.push(base.clone());
        } else {
            presentations.push(Presentation::draw(&mut s.workload));
        }
    }
    let faults = if s.config.pct(30) {
        BenignFaults {
            short_write_pct: *s.fault.pick(&[0u8, 10, 50]),
            eintr_write_pct: *s.fault.pick(&[0u8, 5, 20]),
            short_read_pct: *s.fault.pick(&[0u8, 10, 50]),
            eintr_read_pct: *s.fault.pick(&[0u8, 5, 20]),
            seed: s.fault.next(),
        }
    } else {
        BenignFaults::default()
    };
    let sched = SchedSpec::draw(&mut s.config, &mut s.schedule);
    PipeSpec { gen, cfg, faults, presentations, sched, hard: None, api: None }
}

/// Files of a spec as they are put on the sim disk: (path, bytes), in command-line order.
pub fn input_files(spec: &PipeSpec, w: &Workload) -> Vec<(String, Vec<u8>)> {
    let mut files = Vec::new();
    if spec.cfg.single_file {
        let refs: Vec<&genome::SampleModel> = w.samples.iter().collect();
        let (bytes, gz) = fasta::render_file(&refs, &spec.presentations[0]);
        files.push((format!("/sim/in/all.fa{}", if gz { ".gz" } else { "" }), bytes));
    } else {
        for (i, s) in w.samples.iter().enumerate() {
            let p = &spec.presentations[i.min(spec.presentations.len() - 1)];
            let (bytes, gz) = fasta::render_file(&[s], p);
            // the file stem is the sample name when headers are not PanSN
            let stem = if w.pansn { format!("file{i:03}") } else { s.name.clone() };
            files.push((format!("/sim/in/{stem}.fa{}", if gz { ".gz" } else { "" }), bytes));
        }
    }
    files
}

pub fn make_world(spec: &PipeSpec, files: &[(String, Vec<u8>)]) -> World {
    let mut world = World::new();
    world.log_events = true;
    world.knobs.bufwriter_cap = spec.cfg.bufwriter_cap as usize;
    world.knobs.meta_zstd_level = spec.cfg.meta_zstd_level;
    world.faults = FaultPlan {
        short_write_pct: spec.faults.short_write_pct,
        eintr_write_pct: spec.faults.eintr_write_pct,
        short_read_pct: spec.faults.short_read_pct,
        eintr_read_pct: spec.faults.eintr_read_pct,
        rng: spec.faults.seed,
        ..Default::default()
    };
    if let Some(h) = &spec.hard {
        world.faults.target = h.target.clone();
        world.faults.write_errno = h.errno;
        match h.kind.as_str() {
            "offset" => world.faults.write_fail_at_offset = Some(h.at),
            "write_call" => world.faults.write_fail_at_call = Some(h.at),
            "write_call_once" => {
                world.faults.write_fail_at_call = Some(h.at);
                world.faults.write_fail_transient = true;
            }
            "flush_call" => world.faults.flush_fail_at_call = Some(h.at),
            "read_offset" => world.faults.read_fail_at_offset = Some(h.at),
            _ => {}
        }
    }
    world.log_writes = true;
    for (p, b) in files {
        world.put_file(p, b.clone());
    }
    world
}

/// What the `create` driver returned.
pub type CreateResult = Result<(), String>;

pub fn create_body(cfg: &PipeCfg, inputs: &[String]) -> CreateResult {
    rayon::verif::set_pool(cfg.rayon_pool as usize);
    if cfg.sync_per_sample {
        std::env::set_var("RAGC_SYNC_PER_SAMPLE", "1");
    } else {
        std::env::remove_var("RAGC_SYNC_PER_SAMPLE");
    }
    crate::ragc_cli::verif_create_archive(
        PathBuf::from(ARCHIVE_PATH),
        inputs.iter().map(PathBuf::from).collect(),
        cfg.k,
        cfg.segment_size,
        cfg.min_match_len,
        cfg.pack_cardinality,
        cfg.compression_level,
        cfg.verbosity,
        Some(cfg.threads as usize),
        &cfg.queue_capacity,
        cfg.fallback_frac,
    )
    .map_err(|e| format!("{e:#}"))
}

pub struct PipeRun {
    pub outcome: Outcome,
    pub create: Option<CreateResult>,
    pub world: World,
    pub steps: u64,
    pub preemptions: u64,
    pub tasks: u32,
    pub trace_digest: u64,
    pub choices: Vec<u16>,
    pub max_gap: u64,
}

struct Prepared {
    cfg: PipeCfg,
    inputs: Vec<String>,
    api: Option<(ApiPlan, Workload)>,
}

fn parse_cap(s: &str) -> usize {
    let t = s.trim().to_uppercase();
    let (num, mul) = if let Some(n) = t.strip_suffix('K') {
        (n.to_string(), 1usize << 10)
    } else if let Some(n) = t.strip_suffix('M') {
        (n.to_string(), 1usize << 20)
    } else if let Some(n) = t.strip_suffix('G') {
        (n.to_string(), 1usize << 30)
    } else {
        (t.clone(), 1usize)
    };
    num.parse::<usize>().unwrap_or(1 << 30) * mul
}

/// Drive the library API directly (what a library user does).
pub fn api_body(cfg: &PipeCfg, plan: &ApiPlan, w: &Workload) -> CreateResult {
    use ragc_core::{StreamingQueueCompressor, StreamingQueueConfig};
    // the library API has no `-t` to follow: 0 means a pool of one
    rayon::verif::set_pool(cfg.rayon_pool.max(1) as usize);
    if cfg.sync_per_sample {
        std::env::set_var("RAGC_SYNC_PER_SAMPLE", "1");
    } else {
        std::env::remove_var("RAGC_SYNC_PER_SAMPLE");
    }
    let refs: Vec<Vec<u8>> = w.samples[0].contigs.iter().map(|c| c.1.clone()).collect();
    let (splitters, _, _) = ragc_core::splitters::determine_splitters(&refs, cfg.k as usize, cfg.segment_size as usize);
    let config = StreamingQueueConfig {
        k: cfg.k as usize,
        segment_size: cfg.segment_size as usize,
        min_match_len: cfg.min_match_len as usize,
        compression_level: cfg.compression_level,
        num_threads: cfg.threads as usize,
        queue_capacity: parse_cap(&cfg.queue_capacity),
        verbosity: cfg.verbosity as usize,
        adaptive_mode: plan.adaptive,
        fallback_frac: cfg.fallback_frac,
        batch_size: 50,
        pack_size: cfg.pack_cardinality as usize,
        concatenated_genomes: plan.concatenated,
    };
    let mut c = StreamingQueueCompressor::with_splitters(ARCHIVE_PATH, config, splitters).map_err(|e| format!("{e:#}"))?;
    let mut n = 0u32;
    let run_calls = |c: &StreamingQueueCompressor, n: u32| -> CreateResult {
        for &(at, kind) in &plan.calls {
            if at == n {
                if kind == 0 {
                    c.drain().map_err(|e| format!("{e:#}"))?;
                } else {
                    c.sync_and_flush("sync").map_err(|e| format!("{e:#}"))?;
                }
            }
        }
        Ok(())
    };
    run_calls(&c, 0)?;
    for (si, ci) in push_order(plan, w) {
        let s = &w.samples[si];
        let (name, codes) = &s.contigs[ci];
        let empties = plan.empty_contigs_before.iter().filter(|&&x| x == n).count();
        for e in 0..empties {
            c.push(s.name.clone(), format!("empty_{n}_{e}"), Vec::new()).map_err(|e| format!("{e:#}"))?;
        }
        c.push(s.name.clone(), name.trim().to_string(), codes.clone()).map_err(|e| format!("{e:#}"))?;
        n += 1;
        run_calls(&c, n)?;
    }
    c.finalize().map_err(|e| format!("{e:#}"))
}

/// backstop only: a livelock is declared by the scheduler after NO_PROGRESS_STEPS steps without a
/// progress event
pub const MAX_STEPS: usize = 200_000_000;

/// Execute a batch of specs under the simulator. Workloads are generated here (pure function of
/// the spec) and returned alongside for the oracles.
pub fn execute_batch(specs: &[PipeSpec]) -> Vec<(Workload, PipeRun)> {
    let mut workloads = Vec::new();
    let mut jobs = Vec::new();
    for spec in specs {
        let w = genome::generate(&spec.gen);
        let files = input_files(spec, &w);
        let world = make_world(spec, &files);
        let inputs: Vec<String> = files.iter().map(|(p, _)| p.clone()).collect();
        jobs.push(Job {
            spec: Arc::new(Prepared { cfg: spec.cfg.clone(), inputs, api: spec.api.clone().map(|a| (a, w.clone())) }),
            world,
            sched: spec.sched.clone(),
        });
        workloads.push(w);
    }
    let results = run_batch(jobs, MAX_STEPS, 1 << 20, |p: &Prepared| match &p.api {
        Some((plan, w)) => api_body(&p.cfg, plan, w),
        None => create_body(&p.cfg, &p.inputs),
    });
    results
        .into_iter()
        .zip(workloads)
        .map(|(res, w)| {
            let run = PipeRun {
                outcome: res.outcome,
                create: res.value,
                world: res.world,
                steps: res.trace.choices.len() as u64,
                preemptions: res.trace.preemptions,
                tasks: res.trace.max_tasks,
                trace_digest: res.trace.digest(),
                max_gap: res.trace.max_gap,
                choices: res.trace.choices,
            };
            (w, run)
        })
        .collect()
}

// ------------------------------------------------------------------------------------------
// Oracles

/// C01: reopen with a fresh reader and compare every sample with the model.
pub fn check_roundtrip(w: &Workload, world: World) -> (Result<(), (String, String)>, World) {
    let expected = w.clone();
    let (res, world) = run_plain(world, move || -> Result<(), (String, String)> {
        let mut d = Decompressor::open(ARCHIVE_PATH, DecompressorConfig { verbosity: 0 })
            .map_err(|e| ("open-failed".to_string(), format!("archive reported as written cannot be opened: {e:#}")))?;
        let listed = d.list_samples();
        let want: Vec<String> = expected.samples.iter().map(|s| s.name.clone()).collect();
        if listed != want {
            return Err(("sample-list".into(), format!("listed {:?} expected {:?}", trunc(&listed), trunc(&want))));
        }
        for s in &expected.samples {
            let got = d
                .get_sample(&s.name)
                .map_err(|e| ("extract-failed".to_string(), format!("sample {}: {e:#}", s.name)))?;
            if got.len() != s.contigs.len() {
                return Err(("contig-count".into(), format!("sample {}: {} contigs, expected {}", s.name, got.len(), s.contigs.len())));
            }
            for (i, ((gn, gd), (en, ed))) in got.iter().zip(s.contigs.iter()).enumerate() {
                if gn != en.trim() {
                    return Err(("contig-name".into(), format!("sample {} contig #{i}: name {:?}, expected {:?}", s.name, gn, en)));
                }
                if gd != ed {
                    return Err(("bases-differ".into(), describe_diff(&s.name, en, gd, ed)));
                }
            }
            // per-contig extraction by name agrees: every contig of small samples, else first and last
            let which: Vec<usize> = if s.contigs.len() <= 12 { (0..s.contigs.len()).collect() } else { vec![0, s.contigs.len() - 1] };
            for idx in which {
                let (en, ed) = &s.contigs[idx];
                let one = d
                    .get_contig(&s.name, en.trim())
                    .map_err(|e| ("extract-failed".to_string(), format!("contig {}/{}: {e:#}", s.name, en)))?;
                if &one != ed {
                    return Err(("bases-differ".into(), describe_diff(&s.name, en, &one, ed)));
                }
            }
        }
        Ok(())
    });
    let res = match res {
        Ok(r) => r,
        Err(p) => Err(("reader-panic".to_string(), p)),
    };
    (res, world)
}

fn trunc(v: &[String]) -> Vec<String> {
    v.iter().take(6).cloned().collect()
}

pub fn describe_diff(sample: &str, contig: &str, got: &[u8], exp: &[u8]) -> String {
    let first = got.iter().zip(exp.iter()).position(|(a, b)| a != b).unwrap_or(got.len().min(exp.len()));
    let ndiff = got.iter().zip(exp.iter()).filter(|(a, b)| a != b).count();
    format!(
        "sample {sample} contig {contig:?}: lengths {}/{}, {} differing positions, first at {first}: got code {:?} expected {:?}",
        got.len(),
        exp.len(),
        ndiff,
        got.get(first),
        exp.get(first)
    )
}

#[derive(Default, Debug, Clone)]
pub struct RoundStats {
    pub tokens: u64,
    pub rounds: u64,
    pub contigs_taken: u64,
    pub batches: u64,
    pub batch_digest: u64,
    pub exits: u64,
    pub producer_blocked: u64,
    pub token_with_contigs_queued: u64,
    pub sleeps: u64,
}

/// C05 history invariants (round accounting) over the event log of a run that returned Ok.
pub fn check_rounds(events: &[Event], threads: u32) -> Result<RoundStats, (String, String)> {
    let n = threads as u64;
    let mut st = RoundStats::default();
    let mut bar: BTreeMap<u64, (u64, u64)> = BTreeMap::new(); // worker -> (last barrier no, phase 0 arrive/1 leave)
    let mut tokens_per_worker: BTreeMap<u64, u64> = BTreeMap::new();
    let mut admitted = 0u64;
    let mut taken = 0u64;
    let mut closed = false;
    let mut exited: BTreeMap<u64, u64> = BTreeMap::new();
    let mut bd = 0xcbf29ce484222325u64;
    let mut last_len = 0u64;
    for e in events {
        match e.kind {
            "q_admit" => {
                admitted += 1;
                last_len = e.b;
            }
            "q_take" => {
                taken += 1;
                last_len = e.b;
            }
            "q_close" => closed = true,
            "q_wait_full" => st.producer_blocked += 1,
            "sleep" => st.sleeps += 1,
            "w_token" => {
                st.tokens += 1;
                *tokens_per_worker.entry(e.a).or_insert(0) += 1;
                if last_len > 0 {
                    st.token_with_contigs_queued += 1;
                }
            }
            "w_contig" => st.contigs_taken += 1,
            "w_bar_arrive" => {
                let prev = bar.get(&e.a).copied().unwrap_or((4, 1));
                let expect = if prev.0 == 4 { 1 } else { prev.0 + 1 };
                if prev.1 != 1 || e.b != expect {
                    return Err(("round-accounting".into(), format!("worker {} arrives at barrier {} after {:?}", e.a, e.b, prev)));
                }
                bar.insert(e.a, (e.b, 0));
            }
            "w_bar_leave" => {
                let prev = bar.get(&e.a).copied().unwrap_or((0, 1));
                if prev != (e.b, 0) {
                    return Err(("round-accounting".into(), format!("worker {} leaves barrier {} after {:?}", e.a, e.b, prev)));
                }
                bar.insert(e.a, (e.b, 1));
                if e.b == 4 && e.a == 0 {
                    st.rounds += 1;
                }
            }
            "batch" => {
                st.batches += 1;
                bd = seed::fnv_mix(bd, e.a ^ e.b.rotate_left(13));
            }
            "w_exit" => {
                *exited.entry(e.a).or_insert(0) += 1;
                st.exits += 1;
                if !closed {
                    return Err(("round-accounting".into(), format!("worker {} exited before close", e.a)));
                }
            }
            _ => {}
        }
    }
    st.batch_digest = bd;
    if admitted != taken {
        return Err(("round-accounting".into(), format!("{admitted} tasks admitted, {taken} taken")));
    }
    if st.tokens % n != 0 {
        return Err(("round-accounting".into(), format!("{} tokens pulled by {} workers", st.tokens, n)));
    }
    let per: Vec<u64> = (0..n).map(|w| tokens_per_worker.get(&w).copied().unwrap_or(0)).collect();
    if per.iter().any(|&c| c != per[0]) {
        return Err(("round-accounting".into(), format!("tokens per worker differ: {per:?}")));
    }
    for w in 0..n {
        if exited.get(&w).copied().unwrap_or(0) != 1 {
            return Err(("round-accounting".into(), format!("worker {w} exited {} times", exited.get(&w).copied().unwrap_or(0))));
        }
        if let Some(&(b, ph)) = bar.get(&w) {
            if (b, ph) != (4, 1) {
                return Err(("round-accounting".into(), format!("worker {w} finished inside a round (barrier {b} phase {ph})")));
            }
        }
    }
    Ok(st)
}
