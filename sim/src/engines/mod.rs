pub mod queue;
