pub mod pipeline;
pub mod queue;
pub mod crash;
