pub mod pipeline;
pub mod queue;
