pub mod catalog;
pub mod container;
pub mod pipeline;
pub mod queue;
pub mod reader;
pub mod crash;
