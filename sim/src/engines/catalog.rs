//! Engine D' — catalogue histories: register samples/contigs/segments in a CollectionV3, store
//! it through an Archive on the sim disk in 50-sample batches, close, reopen, load batch by
//! batch and compare with the model table.

use crate::seed::{self, Rng};
use crate::simrun::run_plain;
use ragc_common::verif::{FaultPlan, World};
use ragc_common::{Archive, CollectionV3};
use serde::{Deserialize, Serialize};

pub const PATH: &str = "/sim/catalog.agc";

#[derive(Clone, Debug, Serialize, Deserialize, PartialEq)]
pub struct Seg {
    pub group: u32,
    pub in_group: u32,
    pub rc: bool,
    pub len: u32,
}

#[derive(Clone, Debug, Serialize, Deserialize, PartialEq)]
pub struct CatalogSpec {
    /// (sample, [(contig name, segments)])
    pub samples: Vec<(String, Vec<(String, Vec<Seg>)>)>,
    pub segment_size: u32,
    pub k: u32,
    /// order in which (sample idx, contig idx, place) are registered
    pub shuffle_seed: u64,
    pub meta_zstd_level: Option<i32>,
    pub bufwriter_cap: u64,
    pub short_rw_pct: u8,
    pub eintr_pct: u8,
    pub fault_seed: u64,
    /// Some(seed): contigs are registered in an interleaved order - a sample is resumed after
    /// contigs of other samples (A, B, A, A), as when a later input file carries more contigs of
    /// an earlier sample. Per-sample contig order and the first-seen order of samples are kept.
    #[serde(default)]
    pub interleave_seed: Option<u64>,
}

/// Registration order of (sample index, contig index).
pub fn registration_order(spec: &CatalogSpec) -> Vec<(usize, usize)> {
    let mut order = Vec::new();
    let Some(seed) = spec.interleave_seed else {
        for (si, (_, contigs)) in spec.samples.iter().enumerate() {
            for ci in 0..contigs.len() {
                order.push((si, ci));
            }
        }
        return order;
    };
    let mut r = Rng::new(seed);
    let n = spec.samples.len();
    let mut next_contig = vec![0usize; n];
    let mut started = 0usize; // samples 0..started have been seen
    let mut cur: Option<usize> = None;
    let total: usize = spec.samples.iter().map(|s| s.1.len()).sum();
    while order.len() < total {
        let open: Vec<usize> = (0..started).filter(|&i| next_contig[i] < spec.samples[i].1.len()).collect();
        let choice = match (cur, r.below(10)) {
            (Some(c), 0..=4) if next_contig[c] < spec.samples[c].1.len() => c,
            (_, 5..=7) if !open.is_empty() => open[r.below(open.len() as u64) as usize],
            _ if started < n => {
                started += 1;
                started - 1
            }
            _ => open[r.below(open.len() as u64) as usize],
        };
        order.push((choice, next_contig[choice]));
        next_contig[choice] += 1;
        cur = Some(choice);
    }
    order
}

fn field(r: &mut Rng) -> String {
    match r.below(10) {
        0 => String::new(), // empty field (double space)
        1 => "A".repeat(r.range(101, 140) as usize),
        2 => format!("{}", r.below(100000)),
        3 => format!("len={}", r.below(1000)),
        4 => "x\ty".to_string(),
        5 => {
            let n = r.range(1, 30);
            (0..n).map(|_| (33 + r.below(94)) as u8 as char).filter(|c| *c != ' ').collect()
        }
        _ => format!("chr{}", r.below(30)),
    }
}

fn contig_name(r: &mut Rng, prev: Option<&String>) -> String {
    // consecutive names share any subset of fields with the previous one
    if let Some(p) = prev {
        if r.pct(70) {
            let mut fields: Vec<String> = p.split(' ').map(|s| s.to_string()).collect();
            for f in fields.iter_mut() {
                match r.below(6) {
                    0 => *f = field(r),
                    1 => {
                        // same length, different content
                        let mut b: Vec<u8> = f.bytes().collect();
                        if !b.is_empty() {
                            let i = r.below(b.len() as u64) as usize;
                            b[i] = 33 + ((b[i] as u64 + 1 + r.below(20)) % 90) as u8;
                            if b[i] == b' ' {
                                b[i] = b'_';
                            }
                        }
                        *f = String::from_utf8_lossy(&b).to_string();
                    }
                    2 => {
                        // numeric increment
                        if let Ok(v) = f.parse::<u64>() {
                            *f = format!("{}", v + 1);
                        }
                    }
                    _ => {}
                }
            }
            if r.pct(10) {
                fields.push(field(r));
            } else if r.pct(10) && fields.len() > 1 {
                fields.pop();
            }
            let s = fields.join(" ");
            if !s.is_empty() {
                return s;
            }
        }
    }
    let n = r.range(1, 5);
    let mut s = (0..n).map(|_| field(r)).collect::<Vec<_>>().join(" ");
    if s.trim().is_empty() {
        s = format!("c{}", r.below(1000));
    }
    if s.len() > 400 {
        s.truncate(400);
    }
    s
}

pub fn generate(run_seed: u64) -> CatalogSpec {
    let mut s = seed::streams(run_seed);
    let w = &mut s.workload;
    let c = &mut s.config;
    let n_samples = match c.below(10) {
        0..=4 => w.range(1, 5),
        5..=6 => w.range(6, 49),
        7 => 50,
        8 => w.range(51, 101),
        _ => w.range(102, 130),
    } as usize;
    let segment_size = *c.pick(&[50u32, 1000, 60000]);
    let k = c.range(9, 32) as u32;
    let pred = segment_size + k;
    let many_groups = c.pct(50);
    let mut samples = Vec::new();
    let max_contigs = if n_samples > 20 { 4 } else { 14 };
    for si in 0..n_samples {
        let sname = match w.below(4) {
            0 => format!("S{si}#1"),
            1 => format!("sample {si} with spaces"),
            2 => format!("{}_{si}", "N".repeat(w.range(1, 120) as usize)),
            _ => format!("smp{si:04}"),
        };
        let nc = w.range(1, max_contigs) as usize;
        let mut contigs: Vec<(String, Vec<Seg>)> = Vec::new();
        let mut prev: Option<String> = None;
        for ci in 0..nc {
            let mut name = contig_name(w, prev.as_ref());
            // contig names are unique within a sample (assumption of the check)
            let mut salt = ci;
            while contigs.iter().any(|(n, _)| *n == name) {
                name = format!("{name} u{salt}");
                salt += 1000;
            }
            prev = Some(name.clone());
            let ns = if w.pct(8) { 0 } else { w.range(1, if n_samples > 20 { 6 } else { 40 }) as usize };
            let mut segs = Vec::new();
            for _ in 0..ns {
                let group = if many_groups { w.below(40) as u32 } else { *w.pick(&[0u32, 15, 16, 17, 1000, 70_000]) };
                let in_group = match w.below(8) {
                    0 => 0,
                    1 => 1,
                    2 => w.below(5) as u32,
                    3 => w.range(50, 52) as u32,
                    4 => w.next() as u32 >> w.below(32),
                    _ => w.below(200) as u32,
                };
                let len = match w.below(6) {
                    0 => pred,
                    1 => pred.saturating_sub(w.below(30) as u32),
                    2 => pred + w.below(30) as u32,
                    3 => w.below(40) as u32,
                    4 => w.next() as u32 >> w.below(32),
                    _ => w.range(1, 2 * pred as u64) as u32,
                };
                segs.push(Seg { group, in_group, rc: w.pct(40), len });
            }
            contigs.push((name, segs));
        }
        samples.push((sname, contigs));
    }
    let faulty = c.pct(40);
    CatalogSpec {
        samples,
        segment_size,
        k,
        shuffle_seed: w.next(),
        meta_zstd_level: Some(1),
        bufwriter_cap: if faulty { *c.pick(&[1u64, 7, 512]) } else { 4 << 20 },
        short_rw_pct: if faulty { *s.fault.pick(&[10u8, 50]) } else { 0 },
        eintr_pct: if faulty { *s.fault.pick(&[0u8, 10]) } else { 0 },
        fault_seed: s.fault.next(),
        // own stream: the other dimensions of existing run indices are unchanged
        interleave_seed: {
            let mut r = Rng::new(run_seed ^ 0x1EAF);
            if r.pct(35) { Some(r.next()) } else { None }
        },
    }
}

pub struct CatalogRun {
    pub violation: Option<(String, String)>,
    pub batches: u64,
    pub segments: u64,
    pub names: u64,
    pub faults: std::collections::BTreeMap<&'static str, u64>,
}

pub fn execute(spec: &CatalogSpec) -> CatalogRun {
    let mut world = World::new();
    world.knobs.bufwriter_cap = spec.bufwriter_cap as usize;
    world.knobs.meta_zstd_level = spec.meta_zstd_level;
    world.faults = FaultPlan {
        short_write_pct: spec.short_rw_pct,
        short_read_pct: spec.short_rw_pct,
        eintr_write_pct: spec.eintr_pct,
        eintr_read_pct: spec.eintr_pct,
        rng: spec.fault_seed,
        ..Default::default()
    };
    let sp = spec.clone();
    let (res, world) = run_plain(world, move || -> Result<(u64, u64, u64), (String, String)> {
        let spec = sp;
        macro_rules! bad {
            ($class:expr, $($arg:tt)*) => { return Err(($class.to_string(), format!($($arg)*))) };
        }
        let io = |what: &str, e: anyhow::Error| ("io".to_string(), format!("{what}: {e:#}"));
        // ---------- write
        let mut a = Archive::new_writer();
        a.open(PATH).map_err(|e| io("open", e))?;
        let mut coll = CollectionV3::new();
        coll.set_config(spec.segment_size, spec.k, None);
        coll.prepare_for_compression(&mut a).map_err(|e| io("prepare_for_compression", e))?;
        let mut nseg = 0u64;
        let mut nnames = 0u64;
        for (si, ci) in registration_order(&spec) {
            let (sname, contigs) = &spec.samples[si];
            coll.register_sample_contig(sname, &contigs[ci].0).map_err(|e| io("register_sample_contig", e))?;
            nnames += 1;
        }
        // segment placements arrive in a generated order (workers register in group order)
        let mut places: Vec<(usize, usize, usize)> = Vec::new();
        for (si, (_, contigs)) in spec.samples.iter().enumerate() {
            for (ci, (_, segs)) in contigs.iter().enumerate() {
                for p in 0..segs.len() {
                    places.push((si, ci, p));
                }
            }
        }
        let mut r = Rng::new(spec.shuffle_seed);
        for i in (1..places.len()).rev() {
            let j = r.below(i as u64 + 1) as usize;
            places.swap(i, j);
        }
        for (si, ci, p) in places {
            let (sname, contigs) = &spec.samples[si];
            let (cname, segs) = &contigs[ci];
            let s = &segs[p];
            coll.add_segment_placed(sname, cname, p, s.group, s.in_group, s.rc, s.len)
                .map_err(|e| io("add_segment_placed", e))?;
            nseg += 1;
        }
        coll.store_batch_sample_names(&mut a).map_err(|e| io("store_batch_sample_names", e))?;
        let n = spec.samples.len();
        let mut i = 0;
        let mut batches = 0u64;
        while i < n {
            let j = (i + 50).min(n);
            coll.store_contig_batch(&mut a, i, j).map_err(|e| io("store_contig_batch", e))?;
            batches += 1;
            i = j;
        }
        a.flush_buffers().map_err(|e| io("flush_buffers", e))?;
        a.close().map_err(|e| io("close", e))?;
        drop(a);
        drop(coll);
        // ---------- read
        let mut rd = Archive::new_reader();
        rd.open(PATH).map_err(|e| ("reopen-failed".to_string(), format!("{e:#}")))?;
        let mut c2 = CollectionV3::new();
        c2.set_config(spec.segment_size, spec.k, None);
        c2.prepare_for_decompression(&rd).map_err(|e| ("load-failed".to_string(), format!("prepare_for_decompression: {e:#}")))?;
        c2.load_batch_sample_names(&mut rd).map_err(|e| ("load-failed".to_string(), format!("load_batch_sample_names: {e:#}")))?;
        let listed = c2.get_samples_list(false);
        let want: Vec<String> = spec.samples.iter().map(|s| s.0.clone()).collect();
        if listed != want {
            let first = listed.iter().zip(want.iter()).position(|(a, b)| a != b);
            bad!("sample-list", "{} samples listed, {} stored; first difference at {:?}", listed.len(), want.len(), first);
        }
        let nb = c2.get_no_contig_batches(&rd).map_err(|e| ("load-failed".to_string(), format!("{e:#}")))?;
        if nb as u64 != batches {
            bad!("batch-count", "{nb} contig batches found, {batches} stored");
        }
        for b in 0..nb {
            c2.load_contig_batch(&mut rd, b).map_err(|e| ("load-failed".to_string(), format!("load_contig_batch({b}): {e:#}")))?;
        }
        for (sname, contigs) in &spec.samples {
            let got = c2.get_contig_list(sname).ok_or_else(|| ("sample-missing".to_string(), format!("sample {sname:?} not found after load")))?;
            let wantc: Vec<String> = contigs.iter().map(|c| c.0.clone()).collect();
            if got != wantc {
                let first = got.iter().zip(wantc.iter()).position(|(a, b)| a != b);
                bad!("contig-names", "sample {sname:?}: {} names read, {} stored; first difference at {:?}: read {:?} stored {:?}",
                    got.len(), wantc.len(), first, first.map(|i| &got[i]), first.map(|i| &wantc[i]));
            }
            let desc = c2.get_sample_desc(sname).unwrap();
            for ((cname, segs), (gn, gs)) in contigs.iter().zip(desc.iter()) {
                if gs.len() != segs.len() {
                    bad!("segment-count", "{sname:?}/{cname:?}: {} descriptors read, {} stored", gs.len(), segs.len());
                }
                for (p, (e, g)) in segs.iter().zip(gs.iter()).enumerate() {
                    if (g.group_id, g.in_group_id, g.is_rev_comp, g.raw_length) != (e.group, e.in_group, e.rc, e.len) {
                        bad!("descriptor", "{sname:?}/{gn:?} segment {p}: read (group {}, id {}, rc {}, len {}), stored (group {}, id {}, rc {}, len {})",
                            g.group_id, g.in_group_id, g.is_rev_comp, g.raw_length, e.group, e.in_group, e.rc, e.len);
                    }
                }
            }
        }
        Ok((batches, nseg, nnames))
    });
    let mut run = CatalogRun { violation: None, batches: 0, segments: 0, names: 0, faults: world.fault_fired.clone() };
    match res {
        Ok(Ok((b, s, n))) => {
            run.batches = b;
            run.segments = s;
            run.names = n;
        }
        Ok(Err(v)) => run.violation = Some(v),
        Err(p) => run.violation = Some(("panic".into(), p)),
    }
    run
}
