//! Engine B — queue-sim: PRNG-generated scripts of queue operations executed by shuttle tasks
//! over the real `MemoryBoundedQueue`, checked against the sequential model of DESIGN
//! Appendix C using the under-lock event log as the linearisation order.

use crate::sched::SchedSpec;
use crate::seed::{self, Rng};
use crate::simrun::{run_batch, Job, Outcome};
use ragc_common::verif::{self, Event, World};
use ragc_core::memory_bounded_queue::{MemoryBoundedQueue, PushError, TryPushError};
use ragc_core::verif_sync::thread;
use serde::{Deserialize, Serialize};
use std::sync::Arc;

/// Queue item: ordered by priority only (ties are free), identified by a unique uid.
#[derive(Debug, Clone)]
pub struct Item {
    pub prio: i32,
    pub uid: u32,
}
impl PartialEq for Item {
    fn eq(&self, o: &Self) -> bool {
        self.prio == o.prio
    }
}
impl Eq for Item {}
impl PartialOrd for Item {
    fn partial_cmp(&self, o: &Self) -> Option<std::cmp::Ordering> {
        Some(self.cmp(o))
    }
}
impl Ord for Item {
    fn cmp(&self, o: &Self) -> std::cmp::Ordering {
        self.prio.cmp(&o.prio)
    }
}

#[derive(Debug, Clone, Serialize, Deserialize, PartialEq)]
pub enum Op {
    Push { prio: i32, size: u32, uid: u32 },
    TryPush { prio: i32, size: u32, uid: u32 },
    Pull,
    TryPull,
    /// pull until end-of-stream
    Drain,
    Close,
    Len,
    Size,
    IsClosed,
    /// `is_empty()` (must agree with a length the queue had during the call)
    #[serde(alias = "IsEmpty")]
    IsEmpty,
    /// `capacity()` (constant)
    Capacity,
    /// wait for the listed tasks (script indices) to finish
    Join(Vec<u32>),
}

#[derive(Debug, Clone, Serialize, Deserialize, PartialEq)]
pub struct QueueSpec {
    pub cap: u32,
    /// scripts[0] is run by the main task after spawning the others
    pub scripts: Vec<Vec<Op>>,
    pub sched: SchedSpec,
    /// structured = pipeline-shaped protocol (producers, drain consumers, closer)
    pub structured: bool,
}

pub fn generate(run_seed: u64) -> QueueSpec {
    let mut s = seed::streams(run_seed);
    let w = &mut s.workload;
    let c = &mut s.config;
    let cap = match c.below(8) {
        0 => 0,
        1 => 1,
        2..=4 => c.range(2, 16) as u32,
        _ => c.range(17, 64) as u32,
    };
    let structured = c.pct(60);
    let mut uid = 0u32;
    let mut next_uid = || {
        uid += 1;
        uid
    };
    let nprio = c.range(1, 6) as i32;
    let mut scripts: Vec<Vec<Op>> = vec![Vec::new()];
    if structured {
        // p producers push a total of <= 48 items (each fits: size <= cap), c consumers drain,
        // main joins the producers, closes, joins the consumers.
        // mostly small; a tenth of the runs uses up to 8 producers and 8 consumers (16 threads)
        let big = c.pct(10);
        let p = c.range(1, if big { 8 } else { 4 }) as u32;
        let cn = c.range(1, if big { 8 } else { 6 }) as u32;
        let (p, cn) = if c.pct(25) { (p.min(2), cn.min(2)) } else { (p, cn) };
        // a quarter of the structured runs are tiny, so that the whole invoke/return history can
        // also be fed to the hook-free linearizability search
        let tiny = c.pct(25);
        let total = if tiny { w.range(1, 5) as u32 } else { w.range(1, 48) as u32 };
        let mut prod: Vec<Vec<Op>> = (0..p).map(|_| Vec::new()).collect();
        for _ in 0..total {
            let who = w.below(p as u64) as usize;
            let size = if cap == 0 { 0 } else { w.range(0, cap as u64) as u32 };
            let prio = w.below(nprio as u64) as i32;
            let op = if w.pct(85) {
                Op::Push { prio, size, uid: next_uid() }
            } else {
                Op::TryPush { prio, size, uid: next_uid() }
            };
            prod[who].push(op);
            if w.pct(5) {
                prod[who].push(if w.pct(50) { Op::Len } else { Op::Size });
            }
        }
        let mut main = Vec::new();
        let mut idx = 1u32;
        let mut prod_ids = Vec::new();
        for pscript in prod {
            scripts.push(pscript);
            prod_ids.push(idx);
            idx += 1;
        }
        let mut cons_ids = Vec::new();
        for _ in 0..cn {
            let mut sc = Vec::new();
            if w.pct(30) {
                for _ in 0..w.range(1, 3) {
                    sc.push(if w.pct(50) { Op::TryPull } else { Op::Len });
                }
            }
            sc.push(Op::Drain);
            scripts.push(sc);
            cons_ids.push(idx);
            idx += 1;
        }
        main.push(Op::Join(prod_ids));
        if w.pct(20) {
            main.push(Op::Size);
        }
        main.push(Op::Close);
        if w.pct(30) {
            main.push(Op::TryPush { prio: 0, size: 0, uid: next_uid() });
        }
        if w.pct(30) {
            main.push(Op::IsClosed);
        }
        main.push(Op::Join(cons_ids));
        if w.pct(50) {
            main.push(Op::Pull);
            main.push(Op::Len);
        }
        scripts[0] = main;
    } else {
        // free-form: every task runs a random script; a close is placed somewhere so that
        // blocked tasks are eventually released (most of the time).
        let nt = c.range(2, 8) as u32;
        let oversize = c.pct(15);
        for t in 0..nt {
            let n = w.range(1, 10);
            let producerish = w.pct(50);
            let mut sc = Vec::new();
            for _ in 0..n {
                let r = w.below(100);
                let size = {
                    let hi = if oversize { cap as u64 + 1 } else { cap as u64 };
                    w.range(0, hi) as u32
                };
                let prio = w.below(nprio as u64) as i32;
                let op = if producerish {
                    match r {
                        0..=49 => {
                            // an item larger than the whole queue: since fix 540125b a blocking push
                            // admits it once the queue is empty, so it is an ordinary operation now
                            // (every other r keeps the non-blocking form of the first version)
                            if size > cap && r % 2 == 0 {
                                Op::TryPush { prio, size, uid: next_uid() }
                            } else {
                                Op::Push { prio, size, uid: next_uid() }
                            }
                        }
                        50..=69 => Op::TryPush { prio, size, uid: next_uid() },
                        70..=79 => Op::TryPull,
                        80..=86 => Op::Len,
                        87..=93 => Op::Size,
                        94..=95 => Op::IsClosed,
                        96 => Op::IsEmpty,
                        97 => Op::Capacity,
                        _ => Op::Close,
                    }
                } else {
                    match r {
                        0..=49 => Op::Pull,
                        50..=69 => Op::TryPull,
                        70..=76 => Op::TryPush { prio, size, uid: next_uid() },
                        77..=83 => Op::Len,
                        84..=90 => Op::Size,
                        91..=93 => Op::IsClosed,
                        94 => Op::IsEmpty,
                        95 => Op::Capacity,
                        _ => Op::Close,
                    }
                };
                sc.push(op);
            }
            if t == 0 {
                // main never blocks before its close: it is the one that releases the others
                for op in sc.iter_mut() {
                    match op.clone() {
                        Op::Push { prio, size, uid } => *op = Op::TryPush { prio, size, uid },
                        Op::Pull => *op = Op::TryPull,
                        _ => {}
                    }
                }
                scripts[0] = sc;
            } else {
                scripts.push(sc);
            }
        }
        // main: after its own ops, close (80%) and join everybody
        if w.pct(93) {
            scripts[0].push(Op::Close);
        }
        let all: Vec<u32> = (1..nt).collect();
        scripts[0].push(Op::Join(all));
    }
    let sched = SchedSpec::draw(c, &mut s.schedule);
    QueueSpec { cap, scripts, sched, structured }
}

// event kinds written by the harness itself
const K_INV: &str = "h_inv";
const K_RET: &str = "h_ret";

// result codes in h_ret.b
const R_OK: u64 = 0;
const R_CLOSED: u64 = 1;
const R_WOULD_BLOCK: u64 = 2;
const R_NONE: u64 = 3;
const R_ITEM: u64 = 4; // c = uid
const R_VALUE: u64 = 5; // c = value

fn op_code(op: &Op) -> u64 {
    match op {
        Op::Push { .. } => 1,
        Op::TryPush { .. } => 2,
        Op::Pull => 3,
        Op::TryPull => 4,
        Op::Drain => 3,
        Op::Close => 5,
        Op::Len => 6,
        Op::Size => 7,
        Op::IsClosed => 8,
        Op::Join(_) => 9,
        Op::IsEmpty => 10,
        Op::Capacity => 11,
    }
}

fn run_script(q: &MemoryBoundedQueue<Item>, script: &[Op], handles: &mut Vec<Option<thread::JoinHandle<()>>>) {
    for op in script {
        match op {
            Op::Push { prio, size, uid } => {
                verif::event(K_INV, 1, *uid as u64, *size as u64);
                let r = q.push(Item { prio: *prio, uid: *uid }, *size as usize);
                let code = match r {
                    Ok(()) => R_OK,
                    Err(PushError::Closed) => R_CLOSED,
                };
                verif::event(K_RET, 1, code, 0);
            }
            Op::TryPush { prio, size, uid } => {
                verif::event(K_INV, 2, *uid as u64, *size as u64);
                let r = q.try_push(Item { prio: *prio, uid: *uid }, *size as usize);
                let code = match r {
                    Ok(()) => R_OK,
                    Err(TryPushError::Closed) => R_CLOSED,
                    Err(TryPushError::WouldBlock) => R_WOULD_BLOCK,
                };
                verif::event(K_RET, 2, code, 0);
            }
            Op::Pull => {
                verif::event(K_INV, 3, 0, 0);
                match q.pull() {
                    Some(it) => verif::event(K_RET, 3, R_ITEM, it.uid as u64),
                    None => verif::event(K_RET, 3, R_NONE, 0),
                }
            }
            Op::Drain => loop {
                verif::event(K_INV, 3, 0, 0);
                match q.pull() {
                    Some(it) => verif::event(K_RET, 3, R_ITEM, it.uid as u64),
                    None => {
                        verif::event(K_RET, 3, R_NONE, 0);
                        break;
                    }
                }
            },
            Op::TryPull => {
                verif::event(K_INV, 4, 0, 0);
                match q.try_pull() {
                    Some(it) => verif::event(K_RET, 4, R_ITEM, it.uid as u64),
                    None => verif::event(K_RET, 4, R_NONE, 0),
                }
            }
            Op::Close => {
                verif::event(K_INV, 5, 0, 0);
                q.close();
                verif::event(K_RET, 5, R_OK, 0);
            }
            Op::Len => {
                verif::event(K_INV, 6, 0, 0);
                let v = q.len();
                verif::event(K_RET, 6, R_VALUE, v as u64);
            }
            Op::Size => {
                verif::event(K_INV, 7, 0, 0);
                let v = q.current_size();
                verif::event(K_RET, 7, R_VALUE, v as u64);
            }
            Op::IsClosed => {
                verif::event(K_INV, 8, 0, 0);
                let v = q.is_closed();
                verif::event(K_RET, 8, R_VALUE, v as u64);
            }
            Op::IsEmpty => {
                verif::event(K_INV, 10, 0, 0);
                let v = q.is_empty();
                verif::event(K_RET, 10, R_VALUE, v as u64);
            }
            Op::Capacity => {
                verif::event(K_INV, 11, 0, 0);
                let v = q.capacity();
                verif::event(K_RET, 11, R_VALUE, v as u64);
            }
            Op::Join(ids) => {
                for &i in ids {
                    if let Some(h) = handles.get_mut(i as usize).and_then(|h| h.take()) {
                        let _ = h.join();
                    }
                }
            }
        }
    }
}

#[derive(Debug, Clone, Default)]
pub struct QueueStats {
    pub ops: u64,
    pub admitted: u64,
    pub taken: u64,
    pub waits_full: u64,
    pub waits_empty: u64,
    pub would_block_with_room: u64,
    pub ill_formed_deadlock: bool,
    pub structured_open_deadlock: bool,
    pub lin_checked: bool,
    pub steps: u64,
    pub preemptions: u64,
    pub contested: u64,
    pub trace_digest: u64,
    pub history_digest: u64,
    pub tasks: u32,
}

pub struct QueueRun {
    pub violation: Option<(String, String)>, // (class, detail)
    pub stats: QueueStats,
    pub events: Vec<Event>,
    pub choices: Vec<u16>,
}

fn body(spec: &QueueSpec) {
    let cap = spec.cap as usize;
    let scripts = Arc::new(spec.scripts.clone());
    let q: MemoryBoundedQueue<Item> = MemoryBoundedQueue::new(cap);
    let mut handles: Vec<Option<thread::JoinHandle<()>>> = vec![None];
    for i in 1..scripts.len() {
        let q2 = q.clone();
        let sc = Arc::clone(&scripts);
        handles.push(Some(thread::spawn(move || {
            let mut none = Vec::new();
            run_script(&q2, &sc[i], &mut none);
        })));
    }
    run_script(&q, &scripts[0], &mut handles);
    for h in handles.iter_mut() {
        if let Some(h) = h.take() {
            let _ = h.join();
        }
    }
}

pub fn execute(spec: &QueueSpec) -> QueueRun {
    execute_batch(std::slice::from_ref(spec)).pop().unwrap()
}

pub fn execute_batch(specs: &[QueueSpec]) -> Vec<QueueRun> {
    let jobs: Vec<Job<QueueSpec>> = specs
        .iter()
        .map(|spec| {
            let mut world = World::new();
            world.log_events = true;
            Job { spec: Arc::new(spec.clone()), world, sched: spec.sched.clone() }
        })
        .collect();
    let results = run_batch(jobs, 400_000, 128 << 10, |spec: &QueueSpec| body(spec));
    results
        .into_iter()
        .zip(specs.iter())
        .map(|(res, spec)| {
            let mut stats = QueueStats {
                steps: res.trace.choices.len() as u64,
                preemptions: res.trace.preemptions,
                contested: res.trace.contested,
                trace_digest: res.trace.digest(),
                tasks: spec.scripts.len() as u32,
                ..Default::default()
            };
            let mut violation = check(spec, &res.world.events, &res.outcome, &mut stats);
            if violation.is_none() && !matches!(res.outcome, Outcome::Panic(_) | Outcome::MaxSteps(_)) {
                match linearizable(spec, &res.world.events) {
                    Some(Ok(())) => stats.lin_checked = true,
                    Some(Err(e)) => {
                        stats.lin_checked = true;
                        violation = Some(("not-linearizable".into(), e));
                    }
                    None => {}
                }
            }
            QueueRun { violation, stats, events: res.world.events, choices: res.trace.choices }
        })
        .collect()
}

#[derive(Clone, Debug)]
struct MItem {
    prio: i32,
    uid: u32,
    size: u64,
}

struct Pending {
    code: u64,
    uid: u32,
    size: u64,
    /// under-lock records seen since the invoke: (kind)
    recs: Vec<&'static str>,
    /// for observers: the values the model took between invoke and now
    seen: Vec<u64>,
}

/// Replay the log against the sequential model. Returns the first violation.
pub fn check(
    spec: &QueueSpec,
    events: &[Event],
    outcome: &Outcome,
    stats: &mut QueueStats,
) -> Option<(String, String)> {
    use std::collections::HashMap;
    let cap = spec.cap as u64;
    // uid -> prio from the scripts
    let mut prio_of: HashMap<u32, i32> = HashMap::new();
    for sc in &spec.scripts {
        for op in sc {
            if let Op::Push { prio, uid, .. } | Op::TryPush { prio, uid, .. } = op {
                prio_of.insert(*uid, *prio);
            }
        }
    }
    let mut items: Vec<MItem> = Vec::new();
    let mut bytes: u64 = 0;
    let mut closed = false;
    let mut oversized_inside = 0u32;
    let mut pending: HashMap<u32, Pending> = HashMap::new();
    let mut admitted_uids: std::collections::HashSet<u32> = Default::default();
    let mut taken_uids: std::collections::HashSet<u32> = Default::default();
    let mut hist = 0xcbf29ce484222325u64;

    macro_rules! bad {
        ($class:expr, $($arg:tt)*) => {
            return Some(($class.to_string(), format!($($arg)*)))
        };
    }
    // look-ahead: for a q_take at index i by task t, the uid is in t's next h_ret
    let next_ret_uid = |i: usize, t: u32| -> Option<u32> {
        events[i + 1..]
            .iter()
            .find(|e| e.task == t && e.kind == K_RET)
            .and_then(|e| if e.b == R_ITEM { Some(e.c as u32) } else { None })
    };
    let observe = |pending: &mut HashMap<u32, Pending>, items: &Vec<MItem>, bytes: u64, closed: bool| {
        for p in pending.values_mut() {
            let v = match p.code {
                6 => items.len() as u64,
                7 => bytes,
                8 => closed as u64,
                10 => items.is_empty() as u64,
                11 => cap,
                _ => continue,
            };
            p.seen.push(v);
        }
    };

    for e in events.iter() {
        hist = seed::fnv_mix(hist, seed::fnv64(e.kind.as_bytes()) ^ e.a ^ (e.task as u64) << 40);
    }
    stats.history_digest = hist;
    for (i, e) in events.iter().enumerate() {
        match e.kind {
            K_INV => {
                stats.ops += 1;
                let mut p = Pending {
                    code: e.a,
                    uid: e.b as u32,
                    size: e.c,
                    recs: Vec::new(),
                    seen: Vec::new(),
                };
                match e.a {
                    6 => p.seen.push(items.len() as u64),
                    7 => p.seen.push(bytes),
                    8 => p.seen.push(closed as u64),
                    10 => p.seen.push(items.is_empty() as u64),
                    11 => p.seen.push(cap),
                    _ => {}
                }
                if pending.insert(e.task, p).is_some() {
                    bad!("harness", "task {} invoked twice without return", e.task);
                }
            }
            "q_admit" => {
                let Some(p) = pending.get_mut(&e.task) else { bad!("log", "q_admit outside an operation (task {})", e.task) };
                if p.code != 1 && p.code != 2 {
                    bad!("log", "q_admit inside op code {}", p.code);
                }
                if p.size != e.a {
                    bad!("accounting", "admit size {} differs from pushed size {}", e.a, p.size);
                }
                if closed {
                    bad!("admit-after-close", "uid {} admitted after close", p.uid);
                }
                let fits = p.size <= cap;
                if fits && oversized_inside == 0 && bytes + p.size > cap {
                    bad!("capacity", "uid {} size {} admitted with {} bytes queued, capacity {}", p.uid, p.size, bytes, cap);
                }
                if !fits {
                    oversized_inside += 1;
                }
                if !admitted_uids.insert(p.uid) {
                    bad!("duplicate-admit", "uid {} admitted twice", p.uid);
                }
                items.push(MItem { prio: *prio_of.get(&p.uid).unwrap_or(&0), uid: p.uid, size: p.size });
                bytes += p.size;
                p.recs.push("q_admit");
                stats.admitted += 1;
                if e.b != items.len() as u64 || e.c != bytes {
                    bad!("accounting", "after admit queue reports len={} bytes={}, model len={} bytes={}", e.b, e.c, items.len(), bytes);
                }
                observe(&mut pending, &items, bytes, closed);
            }
            "q_take" => {
                let Some(p) = pending.get_mut(&e.task) else { bad!("log", "q_take outside an operation") };
                if p.code != 3 && p.code != 4 {
                    bad!("log", "q_take inside op code {}", p.code);
                }
                p.recs.push("q_take");
                let Some(uid) = next_ret_uid(i, e.task) else { bad!("log", "q_take without a returned item (task {})", e.task) };
                let Some(pos) = items.iter().position(|m| m.uid == uid) else {
                    if taken_uids.contains(&uid) {
                        bad!("duplicate-delivery", "uid {} returned twice", uid);
                    }
                    bad!("phantom", "pull returned uid {} which is not queued", uid);
                };
                let maxp = items.iter().map(|m| m.prio).max().unwrap();
                if items[pos].prio < maxp {
                    bad!("priority", "pull returned uid {} prio {} while prio {} was queued", uid, items[pos].prio, maxp);
                }
                let m = items.remove(pos);
                if m.size != e.a {
                    bad!("accounting", "take size {} differs from admitted size {} (uid {})", e.a, m.size, uid);
                }
                if m.size > cap {
                    oversized_inside -= 1;
                }
                bytes -= m.size;
                taken_uids.insert(uid);
                stats.taken += 1;
                if e.b != items.len() as u64 || e.c != bytes {
                    bad!("accounting", "after take queue reports len={} bytes={}, model len={} bytes={}", e.b, e.c, items.len(), bytes);
                }
                observe(&mut pending, &items, bytes, closed);
            }
            "q_none" => {
                let Some(p) = pending.get_mut(&e.task) else { bad!("log", "q_none outside an operation") };
                p.recs.push("q_none");
                if !items.is_empty() {
                    bad!("lost-item", "pull reported nothing while {} item(s) were queued", items.len());
                }
                if p.code == 3 && !closed {
                    bad!("early-eos", "blocking pull reported end-of-stream before close");
                }
            }
            "q_refuse" => {
                let Some(p) = pending.get_mut(&e.task) else { bad!("log", "q_refuse outside an operation") };
                p.recs.push("q_refuse");
                if !closed {
                    bad!("refused-open", "push refused as closed while the queue is open");
                }
            }
            "q_would_block" => {
                let Some(p) = pending.get_mut(&e.task) else { bad!("log", "q_would_block outside an operation") };
                p.recs.push("q_would_block");
                if closed || bytes + p.size <= cap {
                    stats.would_block_with_room += 1;
                }
            }
            "q_close" => {
                closed = true;
                observe(&mut pending, &items, bytes, closed);
            }
            "q_wait_full" => stats.waits_full += 1,
            "q_wait_empty" => stats.waits_empty += 1,
            "q_wake_full" | "q_wake_empty" => {}
            K_RET => {
                let Some(p) = pending.remove(&e.task) else { bad!("harness", "return without invoke") };
                let has = |k: &str| p.recs.iter().any(|r| *r == k);
                match (p.code, e.b) {
                    (1, R_OK) | (2, R_OK) => {
                        if !has("q_admit") {
                            bad!("log", "push returned Ok without an admit record");
                        }
                    }
                    (1, R_CLOSED) | (2, R_CLOSED) => {
                        if has("q_admit") {
                            bad!("accepted-and-refused", "push of uid {} was admitted but reported Closed", p.uid);
                        }
                        if !closed {
                            bad!("refused-open", "push reported Closed while the queue is open");
                        }
                    }
                    (2, R_WOULD_BLOCK) => {
                        if has("q_admit") {
                            bad!("accepted-and-refused", "try_push of uid {} was admitted but reported WouldBlock", p.uid);
                        }
                    }
                    (3, R_ITEM) | (4, R_ITEM) => {
                        if !has("q_take") {
                            bad!("log", "pull returned an item without a take record");
                        }
                    }
                    (3, R_NONE) => {
                        if has("q_take") {
                            bad!("lost-item", "pull removed an item but returned None");
                        }
                        if !closed {
                            bad!("early-eos", "blocking pull returned None before close");
                        }
                    }
                    (4, R_NONE) => {
                        if has("q_take") {
                            bad!("lost-item", "try_pull removed an item but returned None");
                        }
                    }
                    (5, _) => {
                        if !closed {
                            bad!("close", "close returned but the queue is not closed");
                        }
                    }
                    (6, R_VALUE) | (7, R_VALUE) | (8, R_VALUE) | (10, R_VALUE) | (11, R_VALUE) => {
                        if !p.seen.contains(&e.c) {
                            bad!("observer", "observer op {} returned {} but the model took only {:?} during the call", p.code, e.c, p.seen);
                        }
                    }
                    (c, r) => bad!("harness", "unexpected op/result {c}/{r}"),
                }
            }
            "sleep" => {}
            other => bad!("log", "unknown event kind {other}"),
        }
    }
    match outcome {
        Outcome::Done => {
            if !pending.is_empty() {
                bad!("harness", "run finished with pending operations");
            }
            // exactly-once at end of run
            for u in &taken_uids {
                if !admitted_uids.contains(u) {
                    bad!("phantom", "uid {u} delivered but never admitted");
                }
            }
            let left: std::collections::HashSet<u32> = items.iter().map(|m| m.uid).collect();
            for u in &admitted_uids {
                if !taken_uids.contains(u) && !left.contains(u) {
                    bad!("lost-item", "uid {u} admitted, never delivered, not queued");
                }
            }
            None
        }
        Outcome::Deadlock(msg) => {
            // Judge the stuck state against the model (DESIGN C06): after close nobody may
            // stay blocked. Before close the property promises nothing about progress.
            let blocked: Vec<(u32, u64)> = pending.iter().map(|(t, p)| (*t, p.code)).collect();
            if closed && !blocked.is_empty() {
                bad!("blocked-after-close", "tasks {:?} still blocked after close; {}", blocked, msg);
            }
            stats.ill_formed_deadlock = true;
            stats.structured_open_deadlock = spec.structured;
            None
        }
        Outcome::MaxSteps(m) => Some(("no-progress".into(), m.clone())),
        Outcome::Panic(m) => Some(("panic".into(), m.clone())),
    }
}

/// Pipeline-shaped liveness judgement used by C05's supplementary queue scenario: with ONE
/// producer, drain-consumers and a closer that joins the producer, a deadlock is a lost
/// wake-up (nobody else can be the rightful receiver of the notification).
pub fn single_producer_shape(spec: &QueueSpec) -> bool {
    if !spec.structured {
        return false;
    }
    let producers = spec.scripts[1..]
        .iter()
        .filter(|sc| sc.iter().any(|op| matches!(op, Op::Push { .. } | Op::TryPush { .. })))
        .count();
    producers == 1
}

// ------------------------------------------------------------------------------------------
// Hook-free cross-check: linearizability of the invoke/return history alone (no under-lock
// records) against the sequential queue model, by exhaustive search over linearisation orders
// (Wing & Gong style with memoisation). Only histories of at most MAX_LIN_OPS completed
// operations are checked. Guards against a hook placed wrongly.

pub const MAX_LIN_OPS: usize = 18;

#[derive(Clone, Debug)]
struct HOp {
    inv: u64,
    ret: u64,
    code: u64,
    uid: u32,
    size: u64,
    res: u64,
    val: u64,
}

pub fn linearizable(spec: &QueueSpec, events: &[Event]) -> Option<Result<(), String>> {
    use std::collections::{HashMap, HashSet};
    let cap = spec.cap as u64;
    let mut prio_of: HashMap<u32, i32> = HashMap::new();
    for sc in &spec.scripts {
        for op in sc {
            if let Op::Push { prio, uid, .. } | Op::TryPush { prio, uid, .. } = op {
                prio_of.insert(*uid, *prio);
            }
        }
    }
    let mut open: HashMap<u32, (u64, u64, u32, u64)> = HashMap::new();
    let mut ops: Vec<HOp> = Vec::new();
    for e in events {
        match e.kind {
            K_INV => {
                open.insert(e.task, (e.seq, e.a, e.b as u32, e.c));
            }
            K_RET => {
                if let Some((inv, code, uid, size)) = open.remove(&e.task) {
                    ops.push(HOp { inv, ret: e.seq, code, uid, size, res: e.b, val: e.c });
                }
            }
            _ => {}
        }
    }
    // operations still open at the end (blocked at a deadlock) never took effect
    if ops.is_empty() || ops.len() > MAX_LIN_OPS {
        return None;
    }
    let n = ops.len();
    // index of the push that carries each uid
    let mut push_of: HashMap<u32, usize> = HashMap::new();
    for (i, o) in ops.iter().enumerate() {
        if o.code == 1 || o.code == 2 {
            push_of.insert(o.uid, i);
        }
    }
    // state: bitmask of ops whose item is currently queued, closed flag
    fn bytes(ops: &[HOp], q: u32) -> u64 {
        (0..ops.len()).filter(|i| q >> i & 1 == 1).map(|i| ops[i].size).sum()
    }
    let mut seen: HashSet<(u32, u32, bool)> = HashSet::new();
    let mut stack: Vec<(u32, u32, bool)> = vec![(0, 0, false)];
    let full: u32 = if n == 32 { u32::MAX } else { (1u32 << n) - 1 };
    while let Some((done, q, closed)) = stack.pop() {
        if done == full {
            return Some(Ok(()));
        }
        if !seen.insert((done, q, closed)) {
            continue;
        }
        // earliest return among not-done ops
        let min_ret = (0..n).filter(|i| done >> i & 1 == 0).map(|i| ops[i].ret).min().unwrap();
        for i in 0..n {
            if done >> i & 1 == 1 || ops[i].inv > min_ret {
                continue;
            }
            let o = &ops[i];
            let b = bytes(&ops, q);
            let count = q.count_ones() as u64;
            let next: Option<(u32, bool)> = match (o.code, o.res) {
                (1, R_OK) | (2, R_OK) => {
                    let oversized_inside = (0..n).any(|j| q >> j & 1 == 1 && ops[j].size > cap);
                    if !closed && (o.size > cap || oversized_inside || b + o.size <= cap) {
                        Some((q | 1 << i, closed))
                    } else {
                        None
                    }
                }
                (1, R_CLOSED) | (2, R_CLOSED) => if closed { Some((q, closed)) } else { None },
                (2, R_WOULD_BLOCK) => Some((q, closed)),
                (3, R_ITEM) | (4, R_ITEM) => {
                    let uid = o.val as u32;
                    match push_of.get(&uid) {
                        Some(&pi) if q >> pi & 1 == 1 => {
                            let my = *prio_of.get(&uid).unwrap_or(&0);
                            let maxp = (0..n).filter(|j| q >> j & 1 == 1).map(|j| *prio_of.get(&ops[j].uid).unwrap_or(&0)).max().unwrap();
                            if my == maxp { Some((q & !(1 << pi), closed)) } else { None }
                        }
                        _ => None,
                    }
                }
                (3, R_NONE) => if q == 0 && closed { Some((q, closed)) } else { None },
                (4, R_NONE) => if q == 0 { Some((q, closed)) } else { None },
                (5, _) => Some((q, true)),
                (6, R_VALUE) => if o.val == count { Some((q, closed)) } else { None },
                (7, R_VALUE) => if o.val == b { Some((q, closed)) } else { None },
                (8, R_VALUE) => if o.val == closed as u64 { Some((q, closed)) } else { None },
                (10, R_VALUE) => if o.val == (count == 0) as u64 { Some((q, closed)) } else { None },
                (11, R_VALUE) => if o.val == cap { Some((q, closed)) } else { None },
                _ => None,
            };
            if let Some((q2, c2)) = next {
                stack.push((done | 1 << i, q2, c2));
            }
        }
    }
    Some(Err(format!(
        "no linearisation of the {n}-operation invoke/return history is consistent with the sequential queue model (capacity {cap}); operations (invoke seq, return seq, op code, uid, size, result, value): {:?}",
        ops.iter().map(|o| (o.inv, o.ret, o.code, o.uid, o.size, o.res, o.val)).collect::<Vec<_>>()
    )))
}
