//! ragc-sim: deterministic simulation with fault injection for ekg/ragc (see /verif/DESIGN.md).
#![allow(dead_code, unused_imports)]

mod alloc;
mod clock;
mod engines;
mod gen;
#[path = "/repo/ragc-cli/src/main.rs"]
#[allow(warnings)]
mod ragc_cli;
mod oracle;
mod props;
mod report;
mod sched;
mod seed;
mod simrun;

use props::{Ctx, Prop, Tier};

#[global_allocator]
static GLOBAL_ALLOC: alloc::CountingAlloc = alloc::CountingAlloc;

use report::{Aggregate, Violation};
use serde_json::{json, Value};
use std::io::Read;
use std::process::{Command, Stdio};
use std::time::Instant;

pub const DEFAULT_SEED: u64 = 20260923;
/// root of the verification tree (evidence/, replays/, known_findings.json): the directory of the
/// `check` script that started us, so that a snapshot run writes into its own snapshot
fn verif_dir() -> String {
    std::env::var("VERIF_HOME").unwrap_or_else(|_| "/verif".to_string())
}

fn arg_val(args: &[String], name: &str) -> Option<String> {
    args.iter()
        .position(|a| a == name)
        .and_then(|i| args.get(i + 1).cloned())
}

fn tier_of(args: &[String]) -> Tier {
    match arg_val(args, "--tier").as_deref() {
        Some("thorough") => Tier::Thorough,
        _ => Tier::Quick,
    }
}

fn profile_of(args: &[String]) -> &'static str {
    match arg_val(args, "--profile").as_deref() {
        Some("checked") => "checked",
        _ => "fast",
    }
}

fn base_seed(args: &[String]) -> u64 {
    if let Some(s) = arg_val(args, "--seed") {
        return s.parse().expect("--seed must be an integer");
    }
    match std::env::var("VERIF_SEED") {
        Ok(s) if !s.trim().is_empty() => s.trim().parse().unwrap_or_else(|_| {
            eprintln!("VERIF_SEED is not an integer");
            std::process::exit(2)
        }),
        _ => DEFAULT_SEED,
    }
}

/// Shuttle installs its own (noisy) panic hook exactly once, at the first execution. Trigger
/// that now and then put the quiet hook on top for the rest of the process.
fn warm_up() {
    let spec = sched::SchedSpec { policy: sched::Policy::Uniform, seed: 1 };
    let w = ragc_common::verif::World::new();
    let _ = simrun::run_sim(w, &spec, 1000, 64 << 10, || 0u8);
    simrun::install_quiet_panic_hook();
    rayon::verif::set_probe_hook(|name, n| {
        ragc_common::verif::with(|w| *w.probes.entry(name).or_insert(0) += n);
    });
}

fn worker(args: &[String]) -> i32 {
    let id = &args[0];
    let prop = props::lookup(id).unwrap_or_else(|| {
        eprintln!("unknown property {id}");
        std::process::exit(2)
    });
    let tier = tier_of(args);
    let jobs: u64 = arg_val(args, "--jobs").map(|s| s.parse().unwrap()).unwrap_or(1);
    let index: u64 = arg_val(args, "--index").map(|s| s.parse().unwrap()).unwrap_or(0);
    let runs: u64 = arg_val(args, "--runs")
        .map(|s| s.parse().unwrap())
        .unwrap_or_else(|| prop.runs(tier));
    let ctx = Ctx { base_seed: base_seed(args), tier, profile: profile_of(args) };
    warm_up();
    let mut agg = Aggregate::default();
    let mut i = index;
    let mut chunk = Vec::with_capacity(256);
    while i < runs {
        chunk.push(i);
        i += jobs;
        if chunk.len() == 256 || i >= runs {
            for r in prop.run_chunk(&ctx, &chunk) {
                agg.add(r);
            }
            chunk.clear();
        }
    }
    println!("{}", serde_json::to_string(&agg).unwrap());
    0
}

fn one(args: &[String]) -> i32 {
    let id = &args[0];
    let prop = props::lookup(id).expect("unknown property");
    let ctx = Ctx { base_seed: base_seed(args), tier: tier_of(args), profile: profile_of(args) };
    let index: u64 = arg_val(args, "--index").map(|s| s.parse().unwrap()).unwrap_or(0);
    warm_up();
    let mut r = prop.run_one(&ctx, index);
    if r.sample.is_none() {
        r.sample = Some(json!("(sample only kept for the first indices)"));
    }
    println!("digest={:x} nontrivial={} counters={:?}", r.digest, r.nontrivial, r.counters);
    for v in &r.violations {
        println!("VIOLATION class={} detail={}", v.class, v.detail);
        println!("spec={}", serde_json::to_string(&v.spec).unwrap());
    }
    if r.violations.is_empty() { 0 } else { 1 }
}

fn repo_tree_hash() -> String {
    let out = Command::new("sh")
        .arg("-c")
        .arg("cd /repo && (git rev-parse HEAD; git diff HEAD | sha256sum | cut -c1-16) | tr '\\n' ' '")
        .output();
    match out {
        Ok(o) => String::from_utf8_lossy(&o.stdout).trim().to_string(),
        Err(_) => "unknown".into(),
    }
}

fn replay_file_json(v: &Violation, seed: u64, profile: &str) -> Value {
    json!({
        "property": v.property,
        "engine": v.engine,
        "profile": profile,
        "verif_seed": seed,
        "run_index": v.index,
        "spec": v.spec,
        "violation": {"class": v.class, "detail": v.detail},
        "event_log_digest": v.event_log_digest,
        "repo_tree": repo_tree_hash(),
    })
}

/// `replay <file>`: re-execute in this (fresh) process. exit 1 = reproduced (prints the
/// VIOLATION line), 3 = did not reproduce, 2 = harness error.
fn replay(args: &[String]) -> i32 {
    let path = &args[0];
    let txt = match std::fs::read_to_string(path) {
        Ok(t) => t,
        Err(e) => {
            eprintln!("cannot read {path}: {e}");
            return 2;
        }
    };
    let f: Value = serde_json::from_str(&txt).expect("replay file is not JSON");
    let id = f["property"].as_str().unwrap_or("");
    let Some(prop) = props::lookup(id) else {
        eprintln!("unknown property in replay file");
        return 2;
    };
    let profile = if cfg!(debug_assertions) { "checked" } else { "fast" };
    let ctx = Ctx { base_seed: f["verif_seed"].as_u64().unwrap_or(DEFAULT_SEED), tier: Tier::Quick, profile };
    warm_up();
    let r = prop.replay(&ctx, &f["spec"]);
    let want_class = f["violation"]["class"].as_str().unwrap_or("");
    let want_digest = f["event_log_digest"].as_u64().unwrap_or(0);
    match r.violations.iter().find(|v| v.class == want_class) {
        Some(v) => {
            println!("replayed: class={} detail={}", v.class, v.detail);
            if v.event_log_digest != want_digest {
                println!("note: event log digest differs ({:x} vs recorded {:x})", v.event_log_digest, want_digest);
                if arg_val(args, "--strict").is_some() {
                    return 3;
                }
            }
            println!("VIOLATION property={id} replay={path}");
            1
        }
        None => {
            println!("did not reproduce: wanted class {want_class}, got {:?}", r.violations.iter().map(|v| &v.class).collect::<Vec<_>>());
            3
        }
    }
}

fn minimise(prop: &dyn Prop, ctx: &Ctx, v: &Violation, budget_s: f64) -> Violation {
    let start = Instant::now();
    let mut best = v.clone();
    // make sure the explicit spec reproduces at all before shrinking
    let r0 = prop.replay(ctx, &best.spec);
    if !r0.violations.iter().any(|x| x.class == v.class) {
        return best;
    }
    let mut progress = true;
    while progress && start.elapsed().as_secs_f64() < budget_s {
        progress = false;
        for cand in prop.shrink(&best.spec) {
            if start.elapsed().as_secs_f64() >= budget_s {
                break;
            }
            let r = prop.replay(ctx, &cand);
            if let Some(x) = r.violations.into_iter().find(|x| x.class == v.class) {
                best = Violation { index: v.index, ..x };
                progress = true;
                break;
            }
        }
    }
    best
}

/// `minimise <file>`: shrink the spec of a replay file in place (bounded time).
fn minimise_cmd(args: &[String]) -> i32 {
    let path = &args[0];
    let Ok(txt) = std::fs::read_to_string(path) else { return 2 };
    let Ok(mut f) = serde_json::from_str::<Value>(&txt) else { return 2 };
    let id = f["property"].as_str().unwrap_or("").to_string();
    let Some(prop) = props::lookup(&id) else { return 2 };
    let seed = f["verif_seed"].as_u64().unwrap_or(DEFAULT_SEED);
    let ctx = Ctx { base_seed: seed, tier: Tier::Quick, profile: if cfg!(debug_assertions) { "checked" } else { "fast" } };
    warm_up();
    let v = Violation {
        property: id.clone(),
        class: f["violation"]["class"].as_str().unwrap_or("").to_string(),
        detail: f["violation"]["detail"].as_str().unwrap_or("").to_string(),
        spec: f["spec"].clone(),
        engine: f["engine"].as_str().unwrap_or("").to_string(),
        index: f["run_index"].as_u64().unwrap_or(0),
        event_log_digest: f["event_log_digest"].as_u64().unwrap_or(0),
    };
    let budget: f64 = arg_val(args, "--budget").and_then(|s| s.parse().ok()).unwrap_or(45.0);
    let m = minimise(prop.as_ref(), &ctx, &v, budget);
    f["spec"] = m.spec.clone();
    f["violation"] = json!({"class": m.class, "detail": m.detail});
    f["event_log_digest"] = json!(m.event_log_digest);
    f["minimised"] = json!(true);
    match std::fs::write(path, serde_json::to_string_pretty(&f).unwrap()) {
        Ok(()) => 0,
        Err(_) => 2,
    }
}

/// `transcript <file>`: print the transcript digest and summary of the spec in a replay file
/// under THIS build (used to reproduce profile divergences).
fn transcript_cmd(args: &[String]) -> i32 {
    let Ok(txt) = std::fs::read_to_string(&args[0]) else { return 2 };
    let Ok(f) = serde_json::from_str::<Value>(&txt) else { return 2 };
    let Some(prop) = props::lookup(f["property"].as_str().unwrap_or("")) else { return 2 };
    let ctx = Ctx { base_seed: f["verif_seed"].as_u64().unwrap_or(DEFAULT_SEED), tier: Tier::Quick,
        profile: if cfg!(debug_assertions) { "checked" } else { "fast" } };
    warm_up();
    let r = prop.replay(&ctx, &f["spec"]);
    match r.transcript {
        Some((_, d, m)) => {
            println!("{d:x} {m}");
            0
        }
        None => 2,
    }
}

/// Fan the run indices of one check out to `jobs` worker processes and merge what they report.
#[allow(clippy::too_many_arguments)]
fn run_workers(
    bin: &std::path::Path,
    id: &str,
    prop: &dyn Prop,
    tier: Tier,
    seed: u64,
    jobs: u64,
    runs: Option<&str>,
    profile: &str,
    rayon_threads: &str,
) -> Result<Aggregate, i32> {
    let mut children = Vec::new();
    for j in 0..jobs {
        let mut c = Command::new(bin);
        c.arg("worker").arg(id)
            .arg("--tier").arg(tier.name())
            .arg("--seed").arg(seed.to_string())
            .arg("--jobs").arg(jobs.to_string())
            .arg("--index").arg(j.to_string())
            .arg("--profile").arg(profile)
            .env("RAYON_NUM_THREADS", rayon_threads)
            // keep freed memory in the process: zstd contexts and 4 MiB write buffers are
            // allocated per run, and returning them to the OS each time costs more in page
            // faults than the simulated runs themselves (3-10x)
            .env("MALLOC_TRIM_THRESHOLD_", "4000000000")
            .env("MALLOC_MMAP_THRESHOLD_", "33554432")
            .env("MALLOC_TOP_PAD_", "268435456")
            .stdout(Stdio::piped());
        if std::env::var("VERIF_DEBUG").is_err() {
            // shuttle prints an unconditional line per detected deadlock; deadlocks are data here
            c.stderr(Stdio::null());
        }
        if let Some(r) = runs {
            c.arg("--runs").arg(r);
        }
        match c.spawn() {
            Ok(ch) => children.push(ch),
            Err(e) => {
                eprintln!("cannot spawn worker {}: {e}", bin.display());
                return Err(2);
            }
        }
    }
    let mut readers = Vec::new();
    for mut ch in children {
        let mut out = ch.stdout.take().unwrap();
        readers.push(std::thread::spawn(move || {
            let mut s = String::new();
            let _ = out.read_to_string(&mut s);
            let st = ch.wait();
            (s, st)
        }));
    }
    let mut pagg = Aggregate::default();
    for r in readers {
        let (s, st) = r.join().unwrap();
        let code = st.as_ref().ok().and_then(|s| s.code());
        if code == Some(alloc::TRIP_EXIT_CODE) {
            // the allocation tripwire fired inside this worker: a verdict, not a harness error
            if let Some(line) = s.lines().rev().find(|l| l.contains("alloc_tripwire")) {
                if let Ok(v) = serde_json::from_str::<Value>(line) {
                    let case = &v["alloc_tripwire"];
                    let idx = case["case"].as_str().and_then(|c| c.strip_prefix("idx")).and_then(|c| c.parse::<u64>().ok()).unwrap_or(0);
                    pagg.violations.push(Violation {
                        property: id.to_string(),
                        class: "garbage-allocation".into(),
                        detail: format!("[{profile} build] allocation request of {} bytes while opening prefix {} of a {}-byte archive", v["request_bytes"], case["prefix"], case["len"]),
                        spec: json!({"from_index": idx, "prefixes": [case["prefix"]]}),
                        engine: prop.engine().into(),
                        index: idx,
                        event_log_digest: 0,
                    });
                    continue;
                }
            }
        }
        let ok = st.map(|s| s.success()).unwrap_or(false);
        let last = s.lines().last().unwrap_or("");
        match serde_json::from_str::<Aggregate>(last) {
            Ok(a) if ok => pagg.merge(a),
            _ => {
                eprintln!("worker failed (status ok={ok}); tail: {}", &last[..last.len().min(300)]);
                return Err(2);
            }
        }
    }
    Ok(pagg)
}

/// `selftest determinism`: every engine, the same seeds executed by two differently shaped
/// process pools (4 vs 16 workers, different RAYON_NUM_THREADS, hence different processes,
/// batch boundaries and hash-map keys); the sets of per-run digests (schedule trace x event
/// log / history / archive bytes) and all counters must be identical.
fn selftest(args: &[String]) -> i32 {
    let what = args.first().map(|s| s.as_str()).unwrap_or("determinism");
    if what != "determinism" {
        eprintln!("usage: selftest determinism [--runs-scale N]");
        return 2;
    }
    let exe = std::env::current_exe().unwrap();
    let seed = base_seed(args);
    let scale: u64 = arg_val(args, "--runs-scale").and_then(|s| s.parse().ok()).unwrap_or(1);
    let plan: [(&str, u64); 16] = [
        ("C06", 20_000), ("C05", 2_000), ("C04", 600), ("C01", 2_000), ("C02", 1_000), ("C08", 8),
        ("C13", 10_000), ("C03", 5_000), ("C15", 16), ("C16", 2_000), ("C19", 600), ("C07", 24),
        ("C14", 200), ("C18", 400), ("C11", 2_000), ("C17", 100),
    ];
    let mut report = Vec::new();
    let mut bad = 0;
    for (id, runs) in plan {
        let prop = props::lookup(id).unwrap();
        let runs = (runs * scale).to_string();
        let a = run_workers(&exe, id, prop.as_ref(), Tier::Quick, seed, 4, Some(&runs), "fast", "2");
        let b = run_workers(&exe, id, prop.as_ref(), Tier::Quick, seed, 16, Some(&runs), "fast", "5");
        let (Ok(a), Ok(b)) = (a, b) else { return 2 };
        let same = a.digests == b.digests && a.counters == b.counters && a.maxima == b.maxima && a.evaluations == b.evaluations;
        let only_a = a.digests.difference(&b.digests).count();
        let only_b = b.digests.difference(&a.digests).count();
        println!("{id}: runs={} digests={} identical={same} (only in 4-worker pool: {only_a}, only in 16-worker pool: {only_b})", a.runs, a.digests.len());
        if !same {
            bad += 1;
            for (k, v) in &a.counters {
                if b.counters.get(k) != Some(v) {
                    println!("  counter {k}: {v} vs {:?}", b.counters.get(k));
                }
            }
        }
        report.push(json!({"property": id, "runs": a.runs, "evaluations": a.evaluations, "distinct_digests": a.digests.len(), "identical": same,
            "digests_only_in_pool_a": only_a, "digests_only_in_pool_b": only_b}));
    }
    let out = json!({"selftest": "determinism", "seed": seed, "pool_a": {"workers": 4, "RAYON_NUM_THREADS": 2}, "pool_b": {"workers": 16, "RAYON_NUM_THREADS": 5},
        "note": "each seed is executed twice in different fresh processes with different batch boundaries; per-run digests cover the schedule trace and the event log / history / archive bytes",
        "results": report, "diffs": bad});
    let _ = std::fs::create_dir_all(format!("{}/selftest", verif_dir()));
    let _ = std::fs::write(format!("{}/selftest/determinism.json", verif_dir()), serde_json::to_string_pretty(&out).unwrap() + "\n");
    if bad == 0 { 0 } else { 1 }
}

fn check(args: &[String]) -> i32 {
    let id = args[0].clone();
    let Some(prop) = props::lookup(&id) else {
        eprintln!("unknown or unclaimed property {id}");
        return 2;
    };
    let tier = tier_of(args);
    let seed = base_seed(args);
    let jobs: u64 = arg_val(args, "--jobs")
        .map(|s| s.parse().unwrap())
        .unwrap_or_else(|| std::thread::available_parallelism().map(|n| n.get() as u64).unwrap_or(4));
    let runs = arg_val(args, "--runs");
    let start = Instant::now();
    let exe = std::env::current_exe().unwrap();
    let bin_for = |profile: &str| -> std::path::PathBuf {
        if profile == "checked" {
            arg_val(args, "--bin-checked").map(Into::into).unwrap_or_else(|| {
                let mut p = exe.clone();
                p.pop();
                p.pop();
                p.push("checked");
                p.push("ragc-sim");
                p
            })
        } else {
            exe.clone()
        }
    };
    let mut total = Aggregate::default();
    let mut per_profile: Vec<(&'static str, Aggregate)> = Vec::new();
    for profile in prop.profiles() {
        let bin = bin_for(profile);
        match run_workers(&bin, &id, prop.as_ref(), tier, seed, jobs, runs.as_deref(), profile, "2") {
            Ok(a) => per_profile.push((profile, a)),
            Err(code) => return code,
        }
    }
    let mut divergences: Vec<Violation> = Vec::new();
    if prop.compare_profiles() && per_profile.len() == 2 {
        let ctx = Ctx { base_seed: seed, tier, profile: "fast" };
        let (a, b) = (&per_profile[0].1.transcripts, &per_profile[1].1.transcripts);
        let mut compared = 0u64;
        for (i, (da, ma)) in a {
            if let Some((db, mb)) = b.get(i) {
                compared += 1;
                if da != db && divergences.len() < 20 {
                    divergences.push(Violation {
                        property: id.clone(),
                        class: "profile-divergence".into(),
                        detail: format!("run {i}: {} build: {ma} | {} build: {mb}", per_profile[0].0, per_profile[1].0),
                        spec: prop.divergence_spec(&ctx, *i),
                        engine: prop.engine().into(),
                        index: *i,
                        event_log_digest: *da,
                    });
                }
            }
        }
        total.counters.insert("transcripts_compared_across_profiles".into(), compared);
    }
    for (_, mut a) in per_profile {
        a.transcripts.clear();
        total.merge(a);
    }
    total.violations.extend(divergences);

    // triage violations: known findings vs new
    let known = report::load_known(&format!("{}/known_findings.json", verif_dir()));
    let mut known_hit: std::collections::BTreeSet<String> = Default::default();
    let mut fresh: Vec<Violation> = Vec::new();
    for v in std::mem::take(&mut total.violations) {
        if let Some(k) = known.open.iter().find(|k| k.matches(&v)) {
            known_hit.insert(format!("KNOWN-FINDING: property={} {}", k.property, k.what));
        } else {
            fresh.push(v);
        }
    }
    for k in &known_hit {
        println!("{k}");
    }
    let mut exit = 0;
    let mut harness_error = false;
    if !fresh.is_empty() {
        // report at most 3 distinct classes, each minimised and replay-verified
        let mut seen = std::collections::BTreeSet::new();
        let _ = std::fs::create_dir_all(format!("{}/replays", verif_dir()));
        for v in &fresh {
            if !seen.insert(v.class.clone()) || seen.len() > 3 {
                continue;
            }
            let path = format!("{}/replays/{}-{}-{}-{:x}.json", verif_dir(), v.property, seed, v.index, v.event_log_digest);
            let vprofile = if v.detail.starts_with("[checked build]") { "checked" } else { "fast" };
            let vexe = bin_for(vprofile);
            let body = serde_json::to_string_pretty(&replay_file_json(v, seed, vprofile)).unwrap();
            if let Err(e) = std::fs::write(&path, body) {
                eprintln!("cannot write replay file: {e}");
                return 2;
            }
            // minimise in a child process (rewrites the file only if the smaller spec still
            // fails the same way), then the file must reproduce in another fresh process
            let reproduced = if v.class == "profile-divergence" {
                // reproduced when the two builds still disagree on this spec
                let t = |p: &str| Command::new(bin_for(p)).arg("transcript").arg(&path).stderr(Stdio::null()).output()
                    .ok().map(|o| String::from_utf8_lossy(&o.stdout).trim().to_string());
                let (a, b) = (t("fast"), t("checked"));
                a.is_some() && b.is_some() && a != b
            } else {
                let _ = Command::new(&vexe).arg("minimise").arg(&path)
                    .stdout(Stdio::null()).stderr(Stdio::null()).status();
                let st = Command::new(&vexe).arg("replay").arg(&path)
                    .stdout(Stdio::null()).stderr(Stdio::null()).status();
                st.map(|s| s.code() == Some(1) || s.code() == Some(alloc::TRIP_EXIT_CODE)).unwrap_or(false)
            };
            let shown: Value = std::fs::read_to_string(&path).ok()
                .and_then(|t| serde_json::from_str(&t).ok()).unwrap_or(json!({}));
            println!("violation class={} detail={}", shown["violation"]["class"].as_str().unwrap_or(&v.class),
                shown["violation"]["detail"].as_str().unwrap_or(&v.detail));
            if !reproduced {
                println!("HARNESS-ERROR: replay file {path} did not reproduce in a fresh process");
                harness_error = true;
            }
            println!("VIOLATION property={} replay={}", id, path);
        }
        exit = 1;
    }
    let wall = start.elapsed().as_secs_f64();
    let meta = report::EvidenceMeta {
        property: &id,
        tier: tier.name(),
        seed,
        level: prop.level(),
        rule: prop.rule(),
        assumptions: prop.assumptions(),
        components_real: prop.components_real(),
        components_stub: prop.components_stub(),
        wall_s: wall,
        violations: fresh.len() as u64,
        extra: {
            let mut e = prop.extra_evidence();
            if let Some(o) = e.as_object_mut() {
                o.insert("known_findings_reproduced".into(), json!(known_hit.iter().collect::<Vec<_>>()));
                o.insert("worker_processes".into(), json!(jobs));
                // result of the last determinism self-test for this property, if any
                if let Ok(t) = std::fs::read_to_string(format!("{}/selftest/determinism.json", verif_dir())) {
                    if let Ok(v) = serde_json::from_str::<Value>(&t) {
                        if let Some(r) = v["results"].as_array().and_then(|a| a.iter().find(|x| x["property"] == json!(id))) {
                            o.insert("determinism_selftest".into(), json!({"same_seeds_in_two_process_pools": r, "pools": [v["pool_a"], v["pool_b"]]}));
                        }
                    }
                }
                o.insert("repo_tree".into(), json!(repo_tree_hash()));
            }
            e
        },
    };
    let path = format!("{}/evidence/{id}.json", verif_dir());
    if let Err(e) = report::write_evidence(&path, &meta, &total) {
        eprintln!("cannot write evidence: {e}");
        return 2;
    }
    println!(
        "{id} {}: runs={} evaluations={} distinct_nontrivial={} violations={} known={} wall={:.1}s",
        tier.name(), total.runs, total.evaluations, total.digests.len(), fresh.len(), known_hit.len(), wall
    );
    if harness_error && exit == 0 {
        exit = 2;
    }
    exit
}

fn main() {
    let args: Vec<String> = std::env::args().skip(1).collect();
    if args.is_empty() {
        eprintln!("usage: ragc-sim check|worker|one|replay ...");
        std::process::exit(2);
    }
    let rest = args[1..].to_vec();
    let code = match args[0].as_str() {
        "check" => check(&rest),
        "worker" => worker(&rest),
        "one" => one(&rest),
        "replay" => replay(&rest),
        "minimise" => minimise_cmd(&rest),
        "transcript" => transcript_cmd(&rest),
        "selftest" => selftest(&rest),
        // `sleeptest`: a literal std::thread::sleep must be intercepted (see clock.rs)
        "sleeptest" => {
            let t = Instant::now();
            std::thread::sleep(std::time::Duration::from_secs(3));
            let ms = t.elapsed().as_millis();
            println!("std::thread::sleep(3 s) returned after {ms} ms");
            if ms < 500 { 0 } else { 2 }
        }
        other => {
            eprintln!("unknown subcommand {other}");
            2
        }
    };
    std::process::exit(code);
}
