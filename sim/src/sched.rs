//! The harness's own shuttle `Scheduler`: owns and records every "who runs next" decision.

use crate::seed::Rng;
use serde::{Deserialize, Serialize};
use shuttle::scheduler::{Schedule, Scheduler, Task, TaskId};
use std::sync::{Arc, Mutex};

#[derive(Clone, Debug, Serialize, Deserialize, PartialEq)]
pub enum Policy {
    /// uniformly random runnable task at every scheduling point
    Uniform,
    /// per-task weights (some tasks ~100x slower), re-drawn at random change points
    Weighted,
    /// keep running the current task with probability p/1000
    Sticky { p: u32 },
    /// priority based with `depth` random priority change points (PCT-like)
    Pct { depth: u32, horizon: u32 },
    /// explicit task ids for the first decisions, then the deterministic tail policy
    /// "keep current if runnable else lowest id". Written run-length encoded
    /// (`[[task, repetitions], ...]`) in replay files; a flat list of ids is accepted too.
    Replay {
        #[serde(with = "rle")]
        choices: Vec<u16>,
    },
}

mod rle {
    use serde::de::{self, SeqAccess, Visitor};
    use serde::ser::SerializeSeq;
    use serde::{Deserializer, Serializer};
    use std::fmt;

    pub fn serialize<S: Serializer>(v: &[u16], s: S) -> Result<S::Ok, S::Error> {
        let mut runs: Vec<(u16, u32)> = Vec::new();
        for &c in v {
            match runs.last_mut() {
                Some((t, n)) if *t == c => *n += 1,
                _ => runs.push((c, 1)),
            }
        }
        let mut seq = s.serialize_seq(Some(runs.len()))?;
        for r in &runs {
            seq.serialize_element(r)?;
        }
        seq.end()
    }

    #[derive(serde::Deserialize)]
    #[serde(untagged)]
    enum Item {
        One(u16),
        Run(u16, u32),
    }

    pub fn deserialize<'de, D: Deserializer<'de>>(d: D) -> Result<Vec<u16>, D::Error> {
        struct V;
        impl<'de> Visitor<'de> for V {
            type Value = Vec<u16>;
            fn expecting(&self, f: &mut fmt::Formatter) -> fmt::Result {
                f.write_str("a list of task ids or of [task, repetitions] pairs")
            }
            fn visit_seq<A: SeqAccess<'de>>(self, mut seq: A) -> Result<Vec<u16>, A::Error> {
                let mut out = Vec::new();
                while let Some(it) = seq.next_element::<Item>()? {
                    match it {
                        Item::One(t) => out.push(t),
                        Item::Run(t, n) => {
                            if out.len() as u64 + n as u64 > 400_000_000 {
                                return Err(de::Error::custom("schedule too long"));
                            }
                            out.extend(std::iter::repeat(t).take(n as usize));
                        }
                    }
                }
                Ok(out)
            }
        }
        d.deserialize_seq(V)
    }
}

#[derive(Clone, Debug, Serialize, Deserialize, PartialEq)]
pub struct SchedSpec {
    pub policy: Policy,
    pub seed: u64,
}

impl SchedSpec {
    /// Swarm-style draw of a policy from the config stream.
    pub fn draw(cfg: &mut Rng, sched: &mut Rng) -> SchedSpec {
        let policy = match cfg.below(10) {
            0..=3 => Policy::Uniform,
            4..=5 => Policy::Weighted,
            6..=7 => Policy::Sticky {
                p: *cfg.pick(&[500u32, 800, 900, 950, 990]),
            },
            _ => Policy::Pct {
                depth: cfg.range(1, 5) as u32,
                horizon: *cfg.pick(&[200u32, 1000, 5000, 20000]),
            },
        };
        SchedSpec {
            policy,
            seed: sched.next(),
        }
    }
    pub fn name(&self) -> &'static str {
        match self.policy {
            Policy::Uniform => "uniform",
            Policy::Weighted => "weighted",
            Policy::Sticky { .. } => "sticky",
            Policy::Pct { .. } => "pct",
            Policy::Replay { .. } => "replay",
        }
    }
}

#[derive(Default, Debug)]
pub struct Trace {
    /// chosen task id per scheduling decision
    pub choices: Vec<u16>,
    /// decisions where the chosen task differs from a still-runnable current task
    pub preemptions: u64,
    /// decisions with more than one runnable task
    pub contested: u64,
    pub max_tasks: u32,
    /// the scheduler stopped the execution: no progress event for NO_PROGRESS_STEPS steps
    pub livelock: bool,
    /// longest stretch of scheduling steps without a progress event (granularity 4096)
    pub max_gap: u64,
}

impl Trace {
    pub fn digest(&self) -> u64 {
        let mut h = 0xcbf29ce484222325u64;
        for &c in &self.choices {
            h = (h ^ (c as u64 & 0xff)).wrapping_mul(0x100000001b3);
            h = (h ^ (c as u64 >> 8)).wrapping_mul(0x100000001b3);
        }
        h
    }
}

pub struct SimScheduler {
    policy: Policy,
    rng: Rng,
    data_rng: Rng,
    started: bool,
    step: u64,
    trace: Arc<Mutex<Trace>>,
    // weighted
    weights: Vec<u32>,
    next_reweigh: u64,
    // pct
    prios: Vec<u64>,
    change_points: Vec<u64>,
    low_water: u64,
    // livelock detection: last seen progress-event count and the step at which it changed
    last_progress: u64,
    last_progress_step: u64,
}

/// Scheduling steps without a single progress event (queue admit/take/close, token, barrier,
/// contig, exit, ...) after which a run is declared livelocked. Polling sleeps do not count as
/// progress. The largest run observed makes < 1M steps in total.
pub const NO_PROGRESS_STEPS: u64 = 2_000_000;

impl SimScheduler {
    pub fn new(spec: &SchedSpec) -> (Self, Arc<Mutex<Trace>>) {
        let trace = Arc::new(Mutex::new(Trace::default()));
        let mut rng = Rng::new(spec.seed);
        let data_rng = rng.fork(77);
        let mut change_points = Vec::new();
        if let Policy::Pct { depth, horizon } = spec.policy {
            for _ in 0..depth {
                change_points.push(rng.below(horizon.max(1) as u64));
            }
        }
        (
            SimScheduler {
                policy: spec.policy.clone(),
                rng,
                data_rng,
                started: false,
                step: 0,
                trace: Arc::clone(&trace),
                weights: Vec::new(),
                next_reweigh: 0,
                prios: Vec::new(),
                change_points,
                low_water: 1 << 20,
                last_progress: 0,
                last_progress_step: 0,
            },
            trace,
        )
    }

    fn weight_of(&mut self, id: usize) -> u32 {
        while self.weights.len() <= id {
            let w = match self.rng.below(10) {
                0 => 1,
                1..=2 => 10,
                _ => 100,
            };
            self.weights.push(w);
        }
        self.weights[id]
    }

    fn prio_of(&mut self, id: usize) -> u64 {
        while self.prios.len() <= id {
            let p = (1u64 << 32) + self.rng.below(1 << 30);
            self.prios.push(p);
        }
        self.prios[id]
    }
}

impl Scheduler for SimScheduler {
    fn new_execution(&mut self) -> Option<Schedule> {
        if self.started {
            None
        } else {
            self.started = true;
            Some(Schedule::new(0))
        }
    }

    fn next_task(
        &mut self,
        runnable: &[&Task],
        current: Option<TaskId>,
        is_yielding: bool,
    ) -> Option<TaskId> {
        if runnable.is_empty() {
            return None;
        }
        let ids: Vec<usize> = runnable.iter().map(|t| usize::from(t.id())).collect();
        let cur = current.map(usize::from);
        let cur_runnable = cur.map(|c| ids.contains(&c)).unwrap_or(false);
        // A yielding task (hooked polling sleep) lets somebody else run when somebody else can.
        let cands: Vec<usize> = if is_yielding && ids.len() > 1 {
            ids.iter().copied().filter(|&i| Some(i) != cur).collect()
        } else {
            ids.clone()
        };
        let step = self.step;
        self.step += 1;
        if step % 4096 == 0 {
            let p = ragc_common::verif::with(|w| w.progress_events).unwrap_or(0);
            {
                let gap = step - self.last_progress_step;
                let mut t = self.trace.lock().unwrap();
                if gap > t.max_gap {
                    t.max_gap = gap;
                }
            }
            if p != self.last_progress {
                self.last_progress = p;
                self.last_progress_step = step;
            } else if step - self.last_progress_step > NO_PROGRESS_STEPS {
                // declare a livelock: returning None makes shuttle stop this execution
                self.trace.lock().unwrap().livelock = true;
                return None;
            }
        }
        let chosen = match self.policy.clone() {
            Policy::Uniform => cands[self.rng.below(cands.len() as u64) as usize],
            Policy::Weighted => {
                if step >= self.next_reweigh {
                    self.weights.clear();
                    self.next_reweigh = step + 1 + self.rng.below(2000);
                }
                let ws: Vec<u32> = cands.iter().map(|&i| self.weight_of(i)).collect();
                let total: u64 = ws.iter().map(|&w| w as u64).sum();
                let mut x = self.rng.below(total);
                let mut pick = cands[0];
                for (i, &w) in ws.iter().enumerate() {
                    if x < w as u64 {
                        pick = cands[i];
                        break;
                    }
                    x -= w as u64;
                }
                pick
            }
            Policy::Sticky { p } => {
                let keep = cur_runnable
                    && cands.contains(&cur.unwrap())
                    && self.rng.below(1000) < p as u64;
                if keep {
                    cur.unwrap()
                } else {
                    cands[self.rng.below(cands.len() as u64) as usize]
                }
            }
            Policy::Pct { .. } => {
                if self.change_points.contains(&step) {
                    if let Some(c) = cur {
                        self.prio_of(c);
                        self.low_water -= 1;
                        self.prios[c] = self.low_water;
                    }
                }
                if is_yielding {
                    // a polling task drops below everybody else, otherwise PCT spins the poller
                    if let Some(c) = cur {
                        self.prio_of(c);
                        self.low_water -= 1;
                        self.prios[c] = self.low_water;
                    }
                }
                let mut best = cands[0];
                let mut bp = self.prio_of(best);
                for &i in &cands[1..] {
                    let p = self.prio_of(i);
                    if p > bp {
                        bp = p;
                        best = i;
                    }
                }
                best
            }
            Policy::Replay { choices } => {
                let want = choices.get(step as usize).map(|&c| c as usize);
                match want {
                    Some(w) if ids.contains(&w) => w,
                    _ => {
                        if cur_runnable && !(is_yielding && ids.len() > 1) {
                            cur.unwrap()
                        } else {
                            *cands.iter().min().unwrap()
                        }
                    }
                }
            }
        };
        {
            let mut t = self.trace.lock().unwrap();
            t.choices.push(chosen as u16);
            if ids.len() > 1 {
                t.contested += 1;
            }
            if cur_runnable && Some(chosen) != cur {
                t.preemptions += 1;
            }
            if ids.len() as u32 > t.max_tasks {
                t.max_tasks = ids.len() as u32;
            }
        }
        runnable
            .iter()
            .find(|t| usize::from(t.id()) == chosen)
            .map(|t| t.id())
    }

    fn next_u64(&mut self) -> u64 {
        self.data_rng.next()
    }
}
