//! Counting global allocator: while armed (per OS thread) it records the largest request and
//! turns a request above the armed limit into a deterministic verdict instead of an
//! out-of-memory abort: the case description registered by the engine is printed as a JSON line
//! on stdout and the process exits with code 77 (the driver reports it as a violation).

use std::alloc::{GlobalAlloc, Layout, System};
use std::cell::Cell;

pub struct CountingAlloc;

thread_local! {
    static LIMIT: Cell<usize> = const { Cell::new(0) };      // 0 = disarmed
    static MAX_SEEN: Cell<usize> = const { Cell::new(0) };
}

static mut CASE: [u8; 512] = [0; 512];
static mut CASE_LEN: usize = 0;

pub const TRIP_EXIT_CODE: i32 = 77;

/// Describe the case being executed (no allocation happens when the tripwire fires).
pub fn set_case(desc: &str) {
    let b = desc.as_bytes();
    let n = b.len().min(512);
    unsafe {
        let p = std::ptr::addr_of_mut!(CASE) as *mut u8;
        std::ptr::copy_nonoverlapping(b.as_ptr(), p, n);
        CASE_LEN = n;
    }
}

pub fn arm(limit: usize) {
    MAX_SEEN.with(|m| m.set(0));
    LIMIT.with(|l| l.set(limit));
}

/// Disarm and return the largest single request seen while armed.
pub fn disarm() -> usize {
    LIMIT.with(|l| l.set(0));
    MAX_SEEN.with(|m| m.get())
}

fn trip(size: usize) -> ! {
    use std::io::Write;
    let _ = LIMIT.try_with(|l| l.set(0));
    let case = unsafe {
        let p = std::ptr::addr_of!(CASE) as *const u8;
        std::slice::from_raw_parts(p, CASE_LEN)
    };
    let out = std::io::stdout();
    let mut o = out.lock();
    let _ = o.write_all(b"\n{\"alloc_tripwire\":");
    let _ = o.write_all(case);
    let _ = write!(o, ",\"request_bytes\":{size}}}\n");
    let _ = o.flush();
    std::process::exit(TRIP_EXIT_CODE);
}

#[inline]
fn note(size: usize) {
    let _ = LIMIT.try_with(|l| {
        let lim = l.get();
        if lim != 0 {
            let _ = MAX_SEEN.try_with(|m| {
                if size > m.get() {
                    m.set(size);
                }
            });
            if size > lim {
                trip(size);
            }
        }
    });
}

unsafe impl GlobalAlloc for CountingAlloc {
    unsafe fn alloc(&self, layout: Layout) -> *mut u8 {
        note(layout.size());
        System.alloc(layout)
    }
    unsafe fn alloc_zeroed(&self, layout: Layout) -> *mut u8 {
        note(layout.size());
        System.alloc_zeroed(layout)
    }
    unsafe fn dealloc(&self, ptr: *mut u8, layout: Layout) {
        System.dealloc(ptr, layout)
    }
    unsafe fn realloc(&self, ptr: *mut u8, layout: Layout, new_size: usize) -> *mut u8 {
        note(new_size);
        System.realloc(ptr, layout, new_size)
    }
}
