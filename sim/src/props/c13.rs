//! C13 — the archive container returns exactly what was stored (engine D).

use super::{Ctx, Prop, Tier};
use crate::engines::container::{self, ContainerSpec};
use crate::report::{RunReport, Violation};
use crate::seed;
use serde_json::{json, Value};

pub struct C13;

fn report(spec: &ContainerSpec, index: u64, want_sample: bool) -> RunReport {
    let run = container::execute(spec);
    let mut r = RunReport::default();
    r.evaluations = 1;
    r.digest = run.history_digest;
    r.nontrivial = spec.wops.len() >= 3;
    r.count("ops", run.ops);
    r.count("parts_written", run.parts_written);
    r.count("bytes_written", run.bytes_written);
    r.count("streams", run.streams);
    r.count(if spec.short_write_pct > 0 || spec.short_read_pct > 0 || spec.eintr_read_pct > 0 || spec.eintr_write_pct > 0 { "config.benign_faults" } else { "config.fault_free" }, 1);
    r.count(&format!("bufwriter_cap.{}", spec.bufwriter_cap), 1);
    for (k, v) in &run.faults {
        r.count(&format!("fault.{k}"), *v);
    }
    if want_sample {
        r.sample = Some(json!({"index": index, "write_ops": spec.wops.iter().take(12).collect::<Vec<_>>(),
            "read_ops": spec.rops.iter().take(8).collect::<Vec<_>>(), "bufwriter_cap": spec.bufwriter_cap}));
    }
    if let Some((class, detail)) = run.violation {
        r.violations.push(Violation {
            property: "C13".into(),
            class,
            detail,
            spec: serde_json::to_value(spec).unwrap(),
            engine: "container-sim".into(),
            index,
            event_log_digest: run.history_digest,
        });
    }
    r
}

impl Prop for C13 {
    fn id(&self) -> &'static str { "C13" }
    fn engine(&self) -> &'static str { "container-sim" }
    fn level(&self) -> &'static str { "exploration" }
    fn rule(&self) -> &'static str {
        "each evaluation = one seeded operation history over Archive on the sim disk: register_stream (printable-ASCII names, repeats), add_part / add_part_buffered (0..64 KiB data, metadata at every byte-length boundary up to 2^64-1), flush_buffers, set_raw_size, flush + close, reopen, then get_part / get_part_by_id / get_num_parts / get_stream_id / get_raw_size in generated order plus a full sweep; every answer is compared with a Vec<Stream> model; half of the histories run with short writes/reads, EINTR and BufWriter capacities 1..4096. distinct_nontrivial = distinct operation-history digests among histories with >=3 write operations."
    }
    fn runs(&self, tier: Tier) -> u64 {
        match tier { Tier::Quick => 1_200_000, Tier::Thorough => 60_000_000 }
    }
    fn run_chunk(&self, ctx: &Ctx, indices: &[u64]) -> Vec<RunReport> {
        indices.iter().map(|&i| report(&container::generate(seed::run_seed(ctx.base_seed ^ 0xC13, i)), i, i < 2)).collect()
    }
    fn replay(&self, _ctx: &Ctx, spec: &Value) -> RunReport {
        let spec: ContainerSpec = serde_json::from_value(spec.clone()).expect("bad C13 spec");
        report(&spec, 0, false)
    }
    fn shrink(&self, spec: &Value) -> Vec<Value> {
        let Ok(spec) = serde_json::from_value::<ContainerSpec>(spec.clone()) else { return vec![] };
        let mut out = Vec::new();
        if !spec.rops.is_empty() {
            let mut s = spec.clone();
            s.rops.clear();
            out.push(s);
        }
        if spec.short_write_pct + spec.eintr_write_pct + spec.short_read_pct + spec.eintr_read_pct > 0 {
            let mut s = spec.clone();
            s.short_write_pct = 0;
            s.eintr_write_pct = 0;
            s.short_read_pct = 0;
            s.eintr_read_pct = 0;
            out.push(s);
        }
        for i in (0..spec.wops.len()).rev() {
            if matches!(spec.wops[i], container::WOp::Register(_)) {
                continue;
            }
            let mut s = spec.clone();
            s.wops.remove(i);
            out.push(s);
        }
        for i in (0..spec.rops.len()).rev() {
            let mut s = spec.clone();
            s.rops.remove(i);
            out.push(s);
        }
        out.into_iter().map(|s| serde_json::to_value(&s).unwrap()).collect()
    }
    fn assumptions(&self) -> Vec<String> {
        vec![
            "part offsets beyond the file sizes the simulator writes cannot be produced through the public API: 64-bit survival is shown for sizes, metadata and raw sizes, not for offsets >= 2^32".into(),
            "out-of-range stream ids are only generated for operations that have an error channel".into(),
        ]
    }
    fn components_real(&self) -> Vec<&'static str> { vec!["ragc-common::Archive (writer and reader)", "ragc-common::varint"] }
    fn components_stub(&self) -> Vec<&'static str> { vec!["std::fs::File -> SimFile with short writes/reads and EINTR", "BufWriter capacity knob"] }
}
