//! One module per claimed property: how a seed expands to runs, which oracle judges them.

use crate::report::{RunReport, Violation};
use serde_json::Value;

pub mod c01;
pub mod c02;
pub mod c03;
pub mod c04;
pub mod c06;
pub mod c07;
pub mod c08;
pub mod c11;
pub mod c13;
pub mod c14;
pub mod c15;
pub mod c16;
pub mod c17;
pub mod c18;

#[derive(Clone, Copy, Debug, PartialEq)]
pub enum Tier {
    Quick,
    Thorough,
}

impl Tier {
    pub fn name(&self) -> &'static str {
        match self {
            Tier::Quick => "quick",
            Tier::Thorough => "thorough",
        }
    }
}

pub struct Ctx {
    pub base_seed: u64,
    pub tier: Tier,
    /// "fast" (release) or "checked" (release + overflow checks)
    pub profile: &'static str,
}

pub trait Prop: Sync {
    fn id(&self) -> &'static str;
    fn engine(&self) -> &'static str;
    fn level(&self) -> &'static str;
    fn rule(&self) -> &'static str;
    fn runs(&self, tier: Tier) -> u64;
    /// which build profiles the check needs
    fn profiles(&self) -> Vec<&'static str> {
        vec!["fast"]
    }
    /// compare per-index transcripts between build profiles (C18)
    fn compare_profiles(&self) -> bool {
        false
    }
    /// spec to put into a replay file for a profile divergence at `index`
    fn divergence_spec(&self, _ctx: &Ctx, _index: u64) -> Value {
        serde_json::json!({})
    }
    fn run_one(&self, ctx: &Ctx, index: u64) -> RunReport {
        self.run_chunk(ctx, &[index]).pop().unwrap()
    }
    /// execute a chunk of run indices (engines batch them inside one shuttle Runner)
    fn run_chunk(&self, ctx: &Ctx, indices: &[u64]) -> Vec<RunReport>;
    /// re-execute an explicit spec (replay file / minimiser candidate)
    fn replay(&self, ctx: &Ctx, spec: &Value) -> RunReport;
    /// spec-level shrink candidates, most aggressive first
    fn shrink(&self, _spec: &Value) -> Vec<Value> {
        Vec::new()
    }
    fn assumptions(&self) -> Vec<String>;
    fn components_real(&self) -> Vec<&'static str>;
    fn components_stub(&self) -> Vec<&'static str>;
    fn extra_evidence(&self) -> Value {
        serde_json::json!({})
    }
}

pub fn lookup(id: &str) -> Option<Box<dyn Prop>> {
    match id {
        "C01" => Some(Box::new(c01::C01)),
        "C02" => Some(Box::new(c02::C02)),
        "C03" => Some(Box::new(c03::C03)),
        "C04" => Some(Box::new(c04::C04)),
        "C05" => Some(Box::new(c01::C05)),
        "C06" => Some(Box::new(c06::C06)),
        "C07" => Some(Box::new(c07::C07)),
        "C08" => Some(Box::new(c08::C08)),
        "C11" => Some(Box::new(c11::C11)),
        "C13" => Some(Box::new(c13::C13)),
        "C14" => Some(Box::new(c14::C14)),
        "C15" => Some(Box::new(c15::C15)),
        "C16" => Some(Box::new(c16::C16)),
        "C17" => Some(Box::new(c17::C17)),
        "C19" => Some(Box::new(c16::C19)),
        "C18" => Some(Box::new(c18::C18)),
        _ => None,
    }
}

pub fn same_failure(a: &Violation, class: &str) -> bool {
    a.class == class
}
