//! C15 — write failures during create are reported, never swallowed (fault enumeration).

use super::{Ctx, Prop, Tier};
use crate::engines::pipeline::{self, HardFault, PipeSpec};
use crate::report::{RunReport, Violation};
use crate::seed::{self, Rng};
use crate::simrun::Outcome;
use serde_json::{json, Value};

pub struct C15;

const TARGET: &str = "out.agc";

fn tiny_spec(run_seed: u64) -> PipeSpec {
    let mut s = super::c14::small_spec(run_seed);
    let mut r = Rng::new(run_seed ^ 0x15);
    s.gen.n_samples = r.range(1, 3) as u32;
    s.gen.max_len = *r.pick(&[60u32, 120, 200]);
    s.gen.ref_contigs = r.range(1, 2) as u32;
    s.gen.shared_small = false;
    if s.cfg.single_file {
        s.presentations.truncate(1);
    } else {
        s.presentations = vec![crate::gen::fasta::Presentation::plain(); s.gen.n_samples as usize];
    }
    s.cfg.threads = r.range(1, 2) as u32;
    s.cfg.bufwriter_cap = *r.pick(&[1u64, 7, 4096, 4 << 20]);
    // swarm dimensions added later (drawn last so that earlier sources keep their shape):
    // diagnostics level, library-API driver with generated drain / sync_and_flush points,
    // benign short writes / EINTR underneath the failing fault
    s.cfg.verbosity = *r.pick(&[0u32, 0, 0, 1, 2, 2, 3]);
    if r.pct(25) {
        let w = crate::gen::genome::generate(&s.gen);
        let total: u64 = w.samples.iter().map(|x| x.contigs.len() as u64).sum();
        let n = r.range(0, 3);
        let mut calls: Vec<(u32, u8)> = (0..n).map(|_| (r.below(total + 1) as u32, r.below(2) as u8)).collect();
        calls.sort();
        s.api = Some(pipeline::ApiPlan { calls, concatenated: r.pct(50), adaptive: r.pct(20), interleave_seed: None, empty_contigs_before: Vec::new() });
    }
    if r.pct(25) {
        s.faults = pipeline::BenignFaults {
            short_write_pct: *r.pick(&[10u8, 50]),
            eintr_write_pct: *r.pick(&[0u8, 5, 20]),
            short_read_pct: 0,
            eintr_read_pct: 0,
            seed: r.next(),
        };
    }
    // (drawn last) a queue barely larger than one contig: back-pressure, and anything that is
    // budgeted by the queue capacity (pending output, in-flight work) is over budget early
    if r.pct(15) {
        let floor = s.gen.max_len as u64 + 64;
        s.cfg.queue_capacity = format!("{}", floor + r.below(16));
        // enough output to exceed that budget several times over before finalize
        s.gen.n_samples = s.gen.n_samples.max(r.range(4, 8) as u32);
        s.gen.ref_contigs = 3;
        if !s.cfg.single_file {
            s.presentations = vec![crate::gen::fasta::Presentation::plain(); s.gen.n_samples as usize];
        }
        if s.api.is_none() && s.gen.pansn && r.pct(60) {
            s.cfg.single_file = true;
            s.presentations.truncate(1);
            s.cfg.pack_cardinality = *r.pick(&[2u32, 3, 5]);
        }
    }
    s
}

struct Source {
    spec: PipeSpec,
    bytes: Vec<u8>,
    write_calls: u64,
    flush_calls: u64,
}

fn variants(src: &Source, only: Option<&HardFault>) -> Vec<PipeSpec> {
    if let Some(h) = only {
        let mut v = src.spec.clone();
        v.hard = Some(h.clone());
        return vec![v];
    }
    let len = src.bytes.len() as u64;
    let mut out = Vec::new();
    let mut push = |kind: &str, at: u64, errno: i32| {
        let mut v = src.spec.clone();
        v.hard = Some(HardFault { kind: kind.into(), at, errno, target: TARGET.into() });
        out.push(v);
    };
    // every byte offset 0..=len (incl. inside the footer and inside its 8-byte length);
    // alternate ENOSPC / EFBIG
    for off in 0..=len {
        push("offset", off, if off % 2 == 0 { 28 } else { 27 });
    }
    for c in 0..src.write_calls.min(400) {
        push("write_call", c, 5);
        // transient: this call fails once, later calls succeed (a swallowed error then leaves a
        // damaged archive behind a success status)
        push("write_call_once", c, if c % 2 == 0 { 5 } else { 28 });
    }
    for c in 0..src.flush_calls.min(50) {
        push("flush_call", c, 5);
    }
    out
}

fn explore(source_spec: PipeSpec, only: Option<HardFault>, index: u64, want_sample: bool) -> RunReport {
    let mut r = RunReport::default();
    // 1. fault-free run: the reference bytes and the write/flush call counts
    let mut probe = source_spec.clone();
    probe.hard = Some(HardFault { kind: "none".into(), at: 0, errno: 5, target: TARGET.into() });
    let (_, base) = pipeline::execute_batch(&[probe]).pop().unwrap();
    let ok = matches!(base.outcome, Outcome::Done) && matches!(base.create, Some(Ok(())));
    if !ok {
        r.evaluations = 1;
        r.count("source_create_failed", 1);
        return r;
    }
    let src = Source {
        bytes: base.world.get_file(pipeline::ARCHIVE_PATH).unwrap_or_default(),
        write_calls: base.world.faults.write_calls,
        flush_calls: base.world.faults.flush_calls,
        spec: source_spec,
    };
    r.count("sources", 1);
    r.count("source_archive_bytes", src.bytes.len() as u64);
    r.count(&format!("bufwriter_cap.{}", src.spec.cfg.bufwriter_cap), 1);
    r.count(&format!("verbosity.{}", src.spec.cfg.verbosity), 1);
    r.count(if src.spec.api.is_some() { "driver.library_api" } else { "driver.cli" }, 1);
    if src.spec.faults.short_write_pct > 0 {
        r.count("sources_with_benign_write_faults", 1);
    }
    r.max("max_write_calls", src.write_calls);
    let vs = variants(&src, only.as_ref());
    let arch_id = seed::fnv64(&src.bytes);
    let mut first: Option<Violation> = None;
    for chunk in vs.chunks(256) {
        let runs = pipeline::execute_batch(chunk);
        for ((_, run), v) in runs.into_iter().zip(chunk.iter()) {
            let h = v.hard.as_ref().unwrap();
            r.evaluations += 1;
            r.extra_digests.push(seed::fnv_mix(seed::fnv_mix(arch_id, seed::fnv64(h.kind.as_bytes())), h.at));
            for (k, c) in &run.world.fault_fired {
                r.count(&format!("fault.{k}"), *c);
            }
            let fired = !run.world.fault_fired.is_empty();
            let on_disk = run.world.get_file(pipeline::ARCHIVE_PATH).unwrap_or_default();
            let mut bad: Option<(String, String)> = None;
            match (&run.outcome, &run.create) {
                (Outcome::Done, Some(Err(_))) => r.count("create_err_reported", 1),
                (Outcome::Done, Some(Ok(()))) => {
                    if on_disk == src.bytes {
                        r.count(if fired { "ok_identical_after_benign_cut" } else { "ok_fault_not_reached" }, 1);
                    } else {
                        bad = Some((
                            "success-with-damaged-archive".into(),
                            format!(
                                "create returned Ok although the {} fault at {} (errno {}) fired: file on disk has {} bytes, the fault-free archive {} (bufwriter_cap {})",
                                h.kind, h.at, h.errno, on_disk.len(), src.bytes.len(), v.cfg.bufwriter_cap
                            ),
                        ));
                    }
                }
                (Outcome::Panic(_), _) => r.count("panics_after_fault", 1),
                (Outcome::Deadlock(_), _) => r.count("deadlocks_after_fault", 1),
                _ => r.count("other_outcome", 1),
            }
            if let Some((class, detail)) = bad {
                if first.is_none() {
                    first = Some(Violation {
                        property: "C15".into(),
                        class,
                        detail,
                        spec: json!({"source": src.spec, "fault": h}),
                        engine: "fault-enum".into(),
                        index,
                        event_log_digest: seed::fnv_mix(arch_id, h.at),
                    });
                }
            }
        }
    }
    if want_sample {
        r.sample = Some(json!({"index": index, "archive_len": src.bytes.len(), "write_calls": src.write_calls,
            "flush_calls": src.flush_calls, "bufwriter_cap": src.spec.cfg.bufwriter_cap, "variants": vs.len(),
            "example_fault": vs.get(vs.len() / 2).and_then(|v| v.hard.clone())}));
    }
    if let Some(v) = first {
        r.violations.push(v);
    }
    r
}

impl Prop for C15 {
    fn id(&self) -> &'static str { "C15" }
    fn engine(&self) -> &'static str { "fault-enum" }
    fn level(&self) -> &'static str { "fault_enumeration" }
    fn rule(&self) -> &'static str {
        "each evaluation = one create run with one injected failing write: for every sampled source (tiny seeded workload x BufWriter capacity in {1,7,4096,4MiB} x verbosity 0..3 x CLI driver or library API with drain/sync_and_flush at generated points x benign short writes/EINTR underneath on or off) the first failing write is placed at EVERY byte offset 0..=len of the archive (ENOSPC/EFBIG: the write reaching the offset is cut there, later writes fail), at every write-call index (sticky EIO, and transient EIO/ENOSPC that fails once) and at every flush-call index (EIO); oracle: create returns Err, or returns Ok with a file byte-identical to the fault-free archive. distinct_nontrivial = distinct (source archive digest, fault kind, position) triples."
    }
    fn runs(&self, tier: Tier) -> u64 {
        match tier { Tier::Quick => 576, Tier::Thorough => 25_000 }
    }
    fn run_chunk(&self, ctx: &Ctx, indices: &[u64]) -> Vec<RunReport> {
        indices.iter().map(|&i| explore(tiny_spec(seed::run_seed(ctx.base_seed ^ 0xC15, i)), None, i, i < 2)).collect()
    }
    fn replay(&self, _ctx: &Ctx, spec: &Value) -> RunReport {
        let source: PipeSpec = serde_json::from_value(spec["source"].clone()).expect("bad C15 spec");
        let fault: HardFault = serde_json::from_value(spec["fault"].clone()).expect("bad C15 fault");
        explore(source, Some(fault), 0, false)
    }
    fn assumptions(&self) -> Vec<String> {
        vec![
            "sources are sampled, fault positions per source are enumerated completely (offsets 0..=len, every write and flush call)".into(),
            "a panic after an injected fault is counted, not judged (the CLI would exit non-zero); what Drop does afterwards is not judged".into(),
        ]
    }
    fn components_real(&self) -> Vec<&'static str> { super::c01::REAL.to_vec() }
    fn components_stub(&self) -> Vec<&'static str> { super::c01::STUB.to_vec() }
}
