//! C07 — range and length queries agree with full extraction (engine C over engine A archives).

use super::{Ctx, Prop, Tier};
use crate::engines::pipeline::{self, PipeSpec};
use crate::report::{RunReport, Violation};
use crate::seed::{self, Rng};
use crate::simrun::{run_plain, Outcome};
use ragc_common::verif::{FaultPlan, World};
use ragc_core::{Decompressor, DecompressorConfig};
use serde::{Deserialize, Serialize};
use serde_json::{json, Value};

pub struct C07;

fn source_spec(run_seed: u64) -> PipeSpec {
    // the C01 space, biased to small segments so that contigs have many junctions
    let mut s = pipeline::generate(run_seed);
    let mut r = Rng::new(run_seed ^ 0x707);
    s.gen.n_samples = s.gen.n_samples.min(8);
    s.gen.max_len = *r.pick(&[40u32, 120, 300, 1200]);
    s.gen.tiny_pct = *r.pick(&[5u32, 20]);
    s.cfg.segment_size = *r.pick(&[50u32, 80, 120]);
    s.cfg.k = r.range(9, 14) as u32;
    s.cfg.threads = r.range(1, 3) as u32;
    s.faults = Default::default();
    if s.cfg.single_file {
        s.presentations.truncate(1);
    } else {
        s.presentations.truncate(s.gen.n_samples as usize);
        while s.presentations.len() < s.gen.n_samples as usize {
            s.presentations.push(crate::gen::fasta::Presentation::plain());
        }
    }
    s
}

#[derive(Serialize, Deserialize)]
struct ReplaySpec {
    source: PipeSpec,
    sample: String,
    contig: String,
    start: u64,
    end: u64,
    read_faults: Option<(u8, u8, u64)>,
    /// the queried handle comes from `clone_for_thread()` of an opened handle
    #[serde(default)]
    via_clone: bool,
    /// shared-handle pass: (contig number in archive order, start, end) queries in sequence
    #[serde(default)]
    cross: Option<Vec<(u64, u64, u64)>>,
}

/// The handle that is asked: a freshly opened one, or (every other contig) a handle obtained from
/// `clone_for_thread()` - the documented way to query from several threads.
fn handle(via_clone: bool) -> Result<Decompressor, String> {
    let d = Decompressor::open(PATH, DecompressorConfig { verbosity: 0 }).map_err(|e| format!("{e:#}"))?;
    if via_clone {
        d.clone_for_thread().map_err(|e| format!("{e:#}"))
    } else {
        Ok(d)
    }
}

const PATH: &str = "/sim/out.agc";

fn world_with(bytes: &[u8], faults: Option<(u8, u8, u64)>) -> World {
    let mut w = World::new();
    w.knobs.bufreader_cap = [8192usize, 512, 64, 7][(seed::fnv64(&bytes[..bytes.len().min(64)]) % 4) as usize];
    w.put_file(PATH, bytes.to_vec());
    if let Some((s, e, seed)) = faults {
        w.faults = FaultPlan { short_read_pct: s, eintr_read_pct: e, rng: seed, ..Default::default() };
    }
    w
}

fn explore(source: PipeSpec, only: Option<ReplaySpec>, index: u64, want_sample: bool) -> RunReport {
    let mut r = RunReport::default();
    let (wl, run) = pipeline::execute_batch(std::slice::from_ref(&source)).pop().unwrap();
    let ok = matches!(run.outcome, Outcome::Done) && matches!(run.create, Some(Ok(())));
    if !ok {
        r.evaluations = 1;
        r.count("source_create_failed", 1);
        return r;
    }
    let bytes = run.world.get_file(pipeline::ARCHIVE_PATH).unwrap_or_default();
    let arch_id = seed::fnv64(&bytes);
    let k = source.cfg.k as usize;
    let faults = if index % 3 == 0 { Some((40u8, 10u8, arch_id)) } else { None };
    let faults = only.as_ref().map(|o| o.read_faults).unwrap_or(faults);
    let mut first: Option<Violation> = None;
    let mut rr = Rng::new(arch_id ^ 0x7);
    r.count("archives", 1);
    let mut contig_no = 0u64;
    // (sample, contig, full sequence) of every contig judged above, for the shared-handle pass
    let mut fulls: Vec<(String, String, Vec<u8>)> = Vec::new();
    for s in &wl.samples {
        for (cname, _) in &s.contigs {
            let cname = cname.trim().to_string();
            contig_no += 1;
            let via_clone = only.as_ref().map(|o| o.via_clone).unwrap_or((contig_no + index) % 2 == 0);
            if let Some(o) = &only {
                if o.cross.is_none() && (o.sample != s.name || o.contig != cname) {
                    continue;
                }
            }
            // fresh handle: full extraction, length, segment table
            let (sn, cn) = (s.name.clone(), cname.clone());
            let (base, _) = run_plain(world_with(&bytes, None), move || -> Result<(Vec<u8>, usize, Vec<u32>), String> {
                let mut d = Decompressor::open(PATH, DecompressorConfig { verbosity: 0 }).map_err(|e| format!("{e:#}"))?;
                let full = d.get_contig(&sn, &cn).map_err(|e| format!("{e:#}"))?;
                let mut d2 = handle(via_clone)?;
                let len = d2.get_contig_length(&sn, &cn).map_err(|e| format!("{e:#}"))?;
                let segs = d2.get_contig_segments_desc(&sn, &cn).map_err(|e| format!("{e:#}"))?;
                Ok((full, len, segs.iter().map(|x| x.raw_length).collect()))
            });
            let (full, len, seg_lens) = match base {
                Ok(Ok(x)) => x,
                Ok(Err(e)) => {
                    r.count("extract_failed", 1);
                    let _ = e;
                    continue;
                }
                Err(p) => {
                    if first.is_none() {
                        first = Some(viol(&source, &s.name, &cname, 0, 0, faults, index, arch_id, "panic", format!("full extraction / length of {}/{cname:?} panicked: {p}", s.name), via_clone));
                    }
                    continue;
                }
            };
            r.count("contigs", 1);
            r.count(if via_clone { "handle.clone_for_thread" } else { "handle.open" }, 1);
            r.count("segments", seg_lens.len() as u64);
            if seg_lens.len() > 1 {
                r.count("probe.multi_segment_contig", 1);
            }
            if len != full.len() {
                r.evaluations += 1;
                if first.is_none() {
                    first = Some(viol(&source, &s.name, &cname, 0, 0, faults, index, arch_id, "length", format!("{}/{cname:?}: get_contig_length = {len}, full extraction has {} bases (segment raw lengths {:?}, k={k})", s.name, full.len(), seg_lens), via_clone));
                }
            }
            // the (start,end) pairs to ask
            let n = full.len();
            let mut pairs: Vec<(usize, usize)> = Vec::new();
            if let Some(o) = &only {
                pairs.push((o.start as usize, o.end as usize));
            } else if n <= 60 {
                for a in 0..=n + 2 {
                    for b in 0..=n + 2 {
                        pairs.push((a, b));
                    }
                }
                r.count("contigs_exhaustive", 1);
            } else {
                // junction positions: first length, then + (len - k) each
                let mut junctions = Vec::new();
                let mut pos = 0usize;
                for (i, &l) in seg_lens.iter().enumerate() {
                    pos += if i == 0 { l as usize } else { (l as usize).saturating_sub(k) };
                    junctions.push(pos);
                }
                let mut pts: Vec<usize> = vec![0, 1, n - 1, n, n + 1];
                for &j in junctions.iter().take(12) {
                    for d in 0..=(k + 1) {
                        pts.push(j.saturating_sub(d));
                        pts.push(j + d);
                    }
                }
                pts.sort();
                pts.dedup();
                pts.retain(|&p| p <= n + 2);
                // cross a subset: every point as start against a spread of ends
                for (i, &a) in pts.iter().enumerate() {
                    for &b in pts.iter().skip(i % 3).step_by(3) {
                        pairs.push((a, b));
                    }
                    pairs.push((a, n));
                    pairs.push((a, a + 1));
                }
                for _ in 0..60 {
                    let a = rr.below(n as u64 + 2) as usize;
                    let b = rr.below(n as u64 + 3) as usize;
                    pairs.push((a, b));
                }
            }
            let (sn, cn) = (s.name.clone(), cname.clone());
            let pairs2 = pairs.clone();
            let (got, _) = run_plain(world_with(&bytes, faults), move || -> Vec<Result<Vec<u8>, String>> {
                let mut d = match handle(via_clone) {
                    Ok(d) => d,
                    Err(e) => return vec![Err(e)],
                };
                pairs2.iter().map(|&(a, b)| d.get_contig_range(&sn, &cn, a, b).map_err(|e| format!("{e:#}"))).collect()
            });
            let got = match got {
                Ok(g) => g,
                Err(p) => {
                    if first.is_none() {
                        first = Some(viol(&source, &s.name, &cname, 0, 0, faults, index, arch_id, "panic", format!("range queries on {}/{cname:?} panicked: {p}", s.name), via_clone));
                    }
                    continue;
                }
            };
            for ((a, b), g) in pairs.iter().zip(got.iter()) {
                r.evaluations += 1;
                let exp: &[u8] = if a >= b || *a >= n { &[] } else { &full[*a..(*b).min(n)] };
                let okk = match g {
                    Ok(v) => v.as_slice() == exp,
                    Err(_) => false,
                };
                if !okk && first.is_none() {
                    let got_desc = match g {
                        Ok(v) => format!("{} bases", v.len()),
                        Err(e) => format!("Err({e})"),
                    };
                    first = Some(viol(&source, &s.name, &cname, *a as u64, *b as u64, faults, index, arch_id, "range-differs",
                        format!("{}/{cname:?} [{a},{b}) of {n}: got {got_desc}, expected {} bases (segment raw lengths {:?}, k={k})", s.name, exp.len(), seg_lens), via_clone));
                }
            }
            r.extra_digests.push(seed::fnv_mix(arch_id, seed::fnv64(cname.as_bytes()) ^ pairs.len() as u64));
            fulls.push((s.name.clone(), cname.clone(), full));
        }
    }
    // ONE handle for the whole archive: ranges of different contigs alternate on it. Contigs of
    // different samples share stored segments, often in opposite orientation (reverse-complemented
    // contigs), so whatever a handle remembers about "the segment decoded last" is put to the test.
    if only.as_ref().map(|o| o.cross.is_some()).unwrap_or(fulls.len() >= 2) {
        let queries: Vec<(usize, usize, usize)> = match &only {
            Some(o) => o.cross.clone().unwrap_or_default().into_iter().map(|(c, a, b)| (c as usize, a as usize, b as usize)).collect(),
            None => {
                let mut q = Vec::new();
                let mut rc = Rng::new(arch_id ^ 0xC705);
                for _ in 0..120 {
                    // the same relative window in two contigs, from both ends
                    let i = rc.below(fulls.len() as u64) as usize;
                    let j = rc.below(fulls.len() as u64) as usize;
                    let (ni, nj) = (fulls[i].2.len(), fulls[j].2.len());
                    let p = rc.below(ni.max(1) as u64) as usize;
                    let w = 1 + rc.below(12) as usize;
                    q.push((i, p, (p + w).min(ni + 1)));
                    q.push((j, p.min(nj), (p + w).min(nj + 1)));
                    q.push((j, nj.saturating_sub(p + w), nj.saturating_sub(p)));
                }
                q
            }
        };
        let fl: Vec<(String, String)> = fulls.iter().map(|f| (f.0.clone(), f.1.clone())).collect();
        let q2 = queries.clone();
        let (got, _) = run_plain(world_with(&bytes, faults), move || -> Vec<Result<Vec<u8>, String>> {
            let mut d = match handle(false) {
                Ok(d) => d,
                Err(e) => return vec![Err(e)],
            };
            q2.iter().map(|&(c, a, b)| d.get_contig_range(&fl[c].0, &fl[c].1, a, b).map_err(|e| format!("{e:#}"))).collect()
        });
        match got {
            Err(p) => {
                if first.is_none() {
                    first = Some(viol(&source, "", "", 0, 0, faults, index, arch_id, "panic", format!("range queries alternating between contigs on one handle panicked: {p}"), false));
                }
            }
            Ok(got) => {
                for (qi, (&(c, a, b), g)) in queries.iter().zip(got.iter()).enumerate() {
                    r.evaluations += 1;
                    r.count("cross_contig_queries_on_one_handle", 1);
                    let full = &fulls[c].2;
                    let n = full.len();
                    let exp: &[u8] = if a >= b || a >= n { &[] } else { &full[a..b.min(n)] };
                    let okk = matches!(g, Ok(v) if v.as_slice() == exp);
                    if !okk && first.is_none() {
                        let mut v = viol(&source, &fulls[c].0, &fulls[c].1, a as u64, b as u64, faults, index, arch_id, "range-differs",
                            format!("query #{qi} of a sequence of range queries that alternates between contigs on ONE handle: {}/{:?} [{a},{b}) of {n} differs from the full extraction (the same query on a fresh handle is judged separately)", fulls[c].0, fulls[c].1), false);
                        // replay needs the whole prefix of the query sequence
                        v.spec["cross"] = json!(queries[..=qi].iter().map(|&(c, a, b)| (c as u64, a as u64, b as u64)).collect::<Vec<_>>());
                        first = Some(v);
                    }
                }
            }
        }
    }
    if r.evaluations == 0 {
        r.evaluations = 1;
    }
    for (kk, v) in [("short_read", faults.is_some() as u64)] {
        r.count(&format!("config.{kk}_runs"), v);
    }
    if want_sample {
        r.sample = Some(json!({"index": index, "samples": wl.samples.len(), "k": k, "segment_size": source.cfg.segment_size,
            "example": "get_contig_range(sample, contig, start, end) == full[start..min(end,len)] for enumerated (start,end)"}));
    }
    if let Some(v) = first {
        r.violations.push(v);
    }
    r
}

#[allow(clippy::too_many_arguments)]
fn viol(source: &PipeSpec, sample: &str, contig: &str, a: u64, b: u64, faults: Option<(u8, u8, u64)>, index: u64, arch: u64, class: &str, detail: String, via_clone: bool) -> Violation {
    let detail = if via_clone { format!("[handle from clone_for_thread] {detail}") } else { detail };
    Violation {
        property: "C07".into(),
        class: class.into(),
        detail,
        spec: serde_json::to_value(&ReplaySpec { source: source.clone(), sample: sample.into(), contig: contig.into(), start: a, end: b, read_faults: faults, via_clone, cross: None }).unwrap(),
        engine: "reader-sim".into(),
        index,
        event_log_digest: seed::fnv_mix(arch, a ^ (b << 32)),
    }
}

impl Prop for C07 {
    fn id(&self) -> &'static str { "C07" }
    fn engine(&self) -> &'static str { "reader-sim" }
    fn level(&self) -> &'static str { "exploration" }
    fn rule(&self) -> &'static str {
        "each evaluation = one (contig, start, end) query on an archive produced by a simulated create of the C01 space (small segments: split, re-oriented, multi-pack, k-mer-only tail segments): ALL pairs 0..=len+2 for contigs up to 60 bases, otherwise every segment junction +-(k+1) crossed with a spread of ends plus {0,1,len-1,len,len+1} and random pairs; oracle: equals the slice of a fresh handle's full extraction, and get_contig_length equals its length; a third of the archives is read under short reads/EINTR. distinct_nontrivial = distinct (archive, contig) digests."
    }
    fn runs(&self, tier: Tier) -> u64 {
        match tier { Tier::Quick => 320, Tier::Thorough => 10_000 }
    }
    fn run_chunk(&self, ctx: &Ctx, indices: &[u64]) -> Vec<RunReport> {
        indices.iter().map(|&i| explore(source_spec(seed::run_seed(ctx.base_seed ^ 0xC07, i)), None, i, i < 2)).collect()
    }
    fn replay(&self, _ctx: &Ctx, spec: &Value) -> RunReport {
        let rs: ReplaySpec = serde_json::from_value(spec.clone()).expect("bad C07 spec");
        let source = rs.source.clone();
        explore(source, Some(rs), 0, false)
    }
    fn assumptions(&self) -> Vec<String> {
        vec!["no schedule is involved in the reader; the simulator contributes the diversity of layouts (schedule-dependent batch composition on the write side) and the faulty-read configurations".into()]
    }
    fn components_real(&self) -> Vec<&'static str> { vec!["ragc-core::Decompressor::{get_contig_range, get_contig_length, get_contig, get_contig_segments_desc}", "source archives: full create pipeline"] }
    fn components_stub(&self) -> Vec<&'static str> { vec!["std::fs::File -> SimFile (short reads/EINTR)"] }
}
