//! C18 — behaviour independent of integer-overflow checking. The same run specs (seed,
//! workload, config, faults, schedule) are executed by the `fast` and the `checked` binary;
//! their transcripts must be identical and the checked run must not panic with an
//! arithmetic-overflow message. Determinism of the simulator is what makes a profile
//! differential meaningful for multi-threaded runs.

use super::{Ctx, Prop, Tier};
use crate::engines::crash::{self, Verdict};
use crate::engines::pipeline::{self, PipeSpec};
use crate::report::{RunReport, Violation};
use crate::sched::{Policy, SchedSpec};
use crate::seed;
use crate::simrun::Outcome;
use serde_json::{json, Value};
use sha2::{Digest, Sha256};

pub struct C18;

fn is_overflow(msg: &str) -> bool {
    msg.contains("with overflow") || msg.contains("attempt to negate") || msg.contains("attempt to shift")
}

/// Workload mix: C01 space, C04's single-file/frequent-sync shape, and small archives whose
/// prefixes are opened (C14 space, a sample of prefixes per archive).
fn spec_for(base_seed: u64, index: u64) -> (PipeSpec, &'static str) {
    let (mut spec, kind) = spec_for_base(base_seed, index);
    // parameters beyond the usual range (own stream): the command line accepts any -m, and
    // match lengths above 32 reach shift/mask arithmetic that 15..32 never does
    let mut r = crate::seed::Rng::new(seed::run_seed(base_seed ^ 0xC18, index) ^ 0x4D4D);
    if r.pct(8) {
        spec.cfg.min_match_len = *r.pick(&[33u32, 34, 35, 36, 37, 40, 48, 64]);
    }
    (spec, kind)
}

fn spec_for_base(base_seed: u64, index: u64) -> (PipeSpec, &'static str) {
    let rs = seed::run_seed(base_seed ^ 0xC18, index);
    match index % 8 {
        0 | 1 | 4 => (pipeline::generate(rs), "c01"),
        // library-API driver (drain / sync_and_flush at generated points), a quarter of them with
        // a queue smaller than one contig
        5 => (pipeline::generate_api(rs, 25), "c01"),
        2 => {
            let g = super::c04::generate_group(rs, 1);
            (g.members.into_iter().next().unwrap(), "c04")
        }
        // queue capacity below the size of one contig (the over-capacity admission path of the
        // queue and everything behind it), CLI driver
        6 => (pipeline::generate_with(rs, 100), "c04"),
        _ => (super::c14::small_spec(rs), "c14"),
    }
}

/// Reader queries whose arithmetic is on C18's anchor list (`raw_length - k` for later segments
/// in the length and range paths): lengths, ranges around both ends and around k, unknown names.
/// Returns a transcript string (answers only, no messages) and the first panic message.
fn reader_queries(w: &crate::gen::genome::Workload, world: ragc_common::verif::World, k: usize) -> (String, Option<String>, ragc_common::verif::World) {
    use ragc_core::{Decompressor, DecompressorConfig};
    let names: Vec<(String, String, usize)> = w
        .samples
        .iter()
        .flat_map(|s| {
            let n = s.contigs.len();
            [0, n / 2, n - 1].into_iter().map(move |i| (s.name.clone(), s.contigs[i].0.trim().to_string(), s.contigs[i].1.len()))
        })
        .take(24)
        .collect();
    let (res, world) = crate::simrun::run_plain(world, move || -> String {
        let mut out = String::new();
        let Ok(mut d) = Decompressor::open(pipeline::ARCHIVE_PATH, DecompressorConfig { verbosity: 0 }) else { return "open-err".into() };
        for (s, c, len) in &names {
            match d.get_contig_length(s, c) {
                Ok(l) => out.push_str(&format!("L{l};")),
                Err(_) => out.push_str("Lerr;"),
            }
            let pts = [(0usize, *len), (0, 1), (len.saturating_sub(1), len + 5), (k.saturating_sub(1), k + 1), (len / 2, len / 2 + k + 2), (*len, len + 1), (5, 3)];
            for (a, b) in pts {
                match d.get_contig_range(s, c, a, b) {
                    Ok(v) => out.push_str(&format!("R{}:{:x};", v.len(), seed::fnv64(&v))),
                    Err(_) => out.push_str("Rerr;"),
                }
            }
        }
        out.push_str(if d.get_contig_length("no-such-sample", "x").is_err() { "U1err;" } else { "U1ok;" });
        if let Some((s, _, _)) = names.first() {
            out.push_str(if d.get_contig_range(s, "no-such-contig", 0, 10).is_err() { "U2err;" } else { "U2ok;" });
        }
        out
    });
    match res {
        Ok(t) => (t, None, world),
        Err(p) => ("panic".into(), Some(p), world),
    }
}

fn hex(bytes: &[u8]) -> String {
    bytes.iter().map(|b| format!("{b:02x}")).collect()
}

fn judge(spec: &PipeSpec, kind: &str, w: &crate::gen::genome::Workload, run: pipeline::PipeRun, index: u64, profile: &str) -> RunReport {
    let mut r = RunReport::default();
    r.evaluations = 1;
    r.nontrivial = run.tasks >= 2 && run.preemptions >= 1;
    r.digest = run.trace_digest;
    r.count(&format!("workload.{kind}"), 1);
    r.count("steps_total", run.steps);
    let mut h = Sha256::new();
    let mut summary;
    let mut overflow: Option<String> = None;
    match &run.outcome {
        Outcome::Done => match run.create.as_ref().unwrap() {
            Ok(()) => {
                let bytes = run.world.get_file(pipeline::ARCHIVE_PATH).unwrap_or_default();
                h.update(b"ok");
                h.update(&bytes);
                summary = format!("create Ok, archive {} bytes sha {}", bytes.len(), &hex(&Sha256::digest(&bytes))[..16]);
                r.count("create_ok", 1);
                // extraction results
                let (rt, world) = pipeline::check_roundtrip(w, run.world);
                match &rt {
                    Ok(()) => h.update(b"rt-ok"),
                    Err((c, d)) => {
                        h.update(c.as_bytes());
                        summary.push_str(&format!("; round trip {c}"));
                        if is_overflow(d) {
                            overflow = Some(format!("reader: {d}"));
                        }
                    }
                }
                let (qt, qpanic, world) = reader_queries(w, world, spec.cfg.k as usize);
                h.update(qt.as_bytes());
                r.count("reader_query_transcripts", 1);
                if let Some(m) = qpanic {
                    summary.push_str("; reader queries panicked");
                    if is_overflow(&m) {
                        overflow = Some(format!("reader queries: {m}"));
                    }
                }
                if kind == "c14" {
                    // a sample of truncation points, same in both builds
                    let n = bytes.len();
                    let mut pts: Vec<usize> = vec![0, 1, 7, 8, 9, n / 3, n / 2, n - 9.min(n), n - 8.min(n), n - 1.min(n)];
                    pts.retain(|&p| p < n);
                    for p in pts {
                        let res = crash::judge_prefix(&bytes, p, "c18");
                        for v in [&res.container, &res.reader] {
                            let tag = match v {
                                Verdict::Refused => "refused".to_string(),
                                Verdict::Panic(m) => {
                                    if is_overflow(m) {
                                        overflow = Some(format!("open of prefix {p}/{n}: {m}"));
                                    }
                                    "panic".to_string()
                                }
                                Verdict::Hang(_) => "hang".to_string(),
                                Verdict::Readable(_) => "readable".to_string(),
                                Verdict::OpenOkNothingReadable => "open-ok".to_string(),
                            };
                            h.update(tag.as_bytes());
                        }
                        r.count("prefix_opens", 2);
                    }
                }
                let _ = world;
            }
            Err(e) => {
                h.update(b"err");
                summary = format!("create Err: {}", &e[..e.len().min(120)]);
                r.count("create_err", 1);
            }
        },
        Outcome::Deadlock(_) => {
            h.update(b"deadlock");
            summary = "deadlock".into();
            r.count("deadlocks", 1);
        }
        Outcome::MaxSteps(_) => {
            h.update(b"maxsteps");
            summary = "step budget".into();
        }
        Outcome::Panic(m) => {
            h.update(b"panic");
            summary = format!("panic: {}", &m[..m.len().min(160)]);
            r.count("panics", 1);
            if is_overflow(m) {
                overflow = Some(format!("create: {m}"));
            }
        }
    }
    let d = h.finalize();
    let td = u64::from_le_bytes(d[..8].try_into().unwrap());
    r.transcript = Some((index, td, summary.clone()));
    if index < 2 {
        r.sample = Some(json!({"index": index, "kind": kind, "profile": profile, "transcript": summary,
            "gen": spec.gen, "cfg": spec.cfg}));
    }
    if let Some(m) = overflow {
        let mut e = spec.clone();
        e.sched = SchedSpec { policy: Policy::Replay { choices: run.choices.clone() }, seed: spec.sched.seed };
        r.violations.push(Violation {
            property: "C18".into(),
            class: "overflow-panic".into(),
            detail: format!("[{profile} build] {m}"),
            spec: json!({"kind": kind, "spec": e}),
            engine: "pipeline-sim".into(),
            index,
            event_log_digest: td,
        });
    }
    r
}

fn run(items: Vec<(PipeSpec, &'static str)>, indices: &[u64], profile: &str) -> Vec<RunReport> {
    let specs: Vec<PipeSpec> = items.iter().map(|x| x.0.clone()).collect();
    let runs = pipeline::execute_batch(&specs);
    runs.into_iter()
        .zip(items.iter().zip(indices))
        .map(|((w, run), ((spec, kind), &i))| judge(spec, kind, &w, run, i, profile))
        .collect()
}

// ------------------------------------------------------------------------------------------
// byte-level FASTA texts (the C16 input front) under both builds: every byte value may occur in a
// sequence line, in particular the non-letters above '@' (`[ \ ] ^ _ \` { | } ~`, DEL) and bytes
// >= 0x80, which the letter tables are indexed with

use super::c16::{self, FilesRun};

/// every 16th run index is a text run
fn is_text(index: u64) -> bool {
    index % 16 == 12
}

fn text_run(base_seed: u64, index: u64) -> FilesRun {
    let (_, mut run) = c16::c16_run(base_seed ^ 0xC18, index);
    let mut r = seed::Rng::new(seed::run_seed(base_seed ^ 0xC18, index) ^ 0x7E87);
    let rate = *r.pick(&[50u64, 200, 1000]);
    for f in run.files.iter_mut() {
        let mut b = f.bytes();
        let mut line_start = true;
        let mut in_header = false;
        for x in b.iter_mut() {
            if line_start {
                in_header = *x == b'>';
            }
            line_start = *x == b'\n';
            if !in_header && *x != b'\n' && *x != b'\r' && r.below(rate) == 0 {
                *x = match r.below(4) {
                    0 => *r.pick(&[0x5Bu8, 0x5C, 0x5D, 0x5E, 0x5F, 0x60, 0x7B, 0x7C, 0x7D, 0x7E, 0x7F, 0x40]),
                    1 => r.range(0x80, 0xFF) as u8,
                    2 => r.range(0x21, 0x7E) as u8,
                    _ => *x,
                };
                if *x == b'>' {
                    *x = b'<';
                }
            }
        }
        *f = c16::FileSpec::text(f.path.clone(), &b);
    }
    run
}

fn judge_text(run: &FilesRun, out: c16::FilesOutcome, index: u64, profile: &str) -> RunReport {
    let mut r = RunReport::default();
    r.evaluations = 1;
    r.nontrivial = out.tasks >= 2 && out.preemptions >= 1;
    r.digest = out.trace_digest;
    r.count("workload.text_bytes", 1);
    let mut h = Sha256::new();
    let summary;
    let mut overflow: Option<String> = None;
    match &out.outcome {
        Outcome::Done => match out.create.as_ref().unwrap() {
            Ok(()) => {
                let bytes = out.world.get_file(pipeline::ARCHIVE_PATH).unwrap_or_default();
                h.update(b"ok");
                h.update(&bytes);
                let (ex, _) = c16::extract_all(out.world);
                let tail = match ex {
                    Ok(e) => {
                        h.update(format!("{e:?}").as_bytes());
                        "extracted".to_string()
                    }
                    Err((c, d)) => {
                        h.update(c.as_bytes());
                        if is_overflow(&d) {
                            overflow = Some(format!("reader: {d}"));
                        }
                        format!("extraction {c}")
                    }
                };
                summary = format!("create Ok, archive {} bytes sha {}; {tail}", bytes.len(), &hex(&Sha256::digest(&bytes))[..16]);
                r.count("create_ok", 1);
            }
            Err(e) => {
                h.update(b"err");
                summary = format!("create Err: {}", &e[..e.len().min(120)]);
                r.count("create_err", 1);
            }
        },
        Outcome::Deadlock(_) => {
            h.update(b"deadlock");
            summary = "deadlock".into();
        }
        Outcome::MaxSteps(_) => {
            h.update(b"maxsteps");
            summary = "step budget".into();
        }
        Outcome::Panic(m) => {
            h.update(b"panic");
            summary = format!("panic: {}", &m[..m.len().min(160)]);
            r.count("panics", 1);
            if is_overflow(m) {
                overflow = Some(format!("create: {m}"));
            }
        }
    }
    let d = h.finalize();
    let td = u64::from_le_bytes(d[..8].try_into().unwrap());
    r.transcript = Some((index, td, summary));
    if let Some(m) = overflow {
        r.violations.push(Violation {
            property: "C18".into(),
            class: "overflow-panic".into(),
            detail: format!("[{profile} build] {m}"),
            spec: json!({"kind": "text", "text": run, "index": index}),
            engine: "pipeline-sim".into(),
            index,
            event_log_digest: td,
        });
    }
    r
}

fn run_texts(runs: Vec<FilesRun>, indices: &[u64], profile: &str) -> Vec<RunReport> {
    let outs = c16::run_files(&runs);
    outs.into_iter().zip(runs.iter().zip(indices)).map(|(o, (run, &i))| judge_text(run, o, i, profile)).collect()
}

impl Prop for C18 {
    fn id(&self) -> &'static str { "C18" }
    fn engine(&self) -> &'static str { "pipeline-sim x 2 build profiles" }
    fn level(&self) -> &'static str { "exploration" }
    fn rule(&self) -> &'static str {
        "each evaluation = one seeded run spec (workloads of the C01, C04 and C14 spaces incl. >= pack-cardinality contigs in one file, queue capacities below one contig, the library-API driver, verbosity 0..3, truncated archives; length and range queries on the reader; one run in 16 feeds byte-level FASTA texts in which any byte value may occur in a sequence line) executed twice, by the release build and by the same build with overflow-checks and debug-assertions on, under the SAME recorded seed-derived schedule; oracle: equal transcripts (Ok/Err of create, archive SHA-256, round-trip verdict, answers of the length/range queries, verdict per truncation point) and no arithmetic-overflow panic in the checked run. distinct_nontrivial = distinct schedule-trace digests among runs with >=2 tasks and >=1 preemption."
    }
    fn runs(&self, tier: Tier) -> u64 {
        match tier { Tier::Quick => 16_000, Tier::Thorough => 500_000 }
    }
    fn profiles(&self) -> Vec<&'static str> { vec!["fast", "checked"] }
    fn compare_profiles(&self) -> bool { true }
    fn run_chunk(&self, ctx: &Ctx, indices: &[u64]) -> Vec<RunReport> {
        let (ti, pi): (Vec<u64>, Vec<u64>) = indices.iter().partition(|&&i| is_text(i));
        let items: Vec<(PipeSpec, &'static str)> = pi.iter().map(|&i| spec_for(ctx.base_seed, i)).collect();
        let mut out = run(items, &pi, ctx.profile);
        if !ti.is_empty() {
            let runs: Vec<FilesRun> = ti.iter().map(|&i| text_run(ctx.base_seed, i)).collect();
            out.extend(run_texts(runs, &ti, ctx.profile));
        }
        out
    }
    fn replay(&self, ctx: &Ctx, spec: &Value) -> RunReport {
        if spec["kind"] == json!("text") {
            let run: FilesRun = serde_json::from_value(spec["text"].clone()).expect("bad C18 text spec");
            return run_texts(vec![run], &[spec["index"].as_u64().unwrap_or(0)], ctx.profile).pop().unwrap();
        }
        let kind: &'static str = match spec["kind"].as_str() { Some("c04") => "c04", Some("c14") => "c14", _ => "c01" };
        let s: PipeSpec = serde_json::from_value(spec["spec"].clone()).expect("bad C18 spec");
        run(vec![(s, kind)], &[spec["index"].as_u64().unwrap_or(0)], ctx.profile).pop().unwrap()
    }
    fn divergence_spec(&self, ctx: &Ctx, index: u64) -> Value {
        if is_text(index) {
            return json!({"kind": "text", "text": text_run(ctx.base_seed, index), "index": index});
        }
        let (s, kind) = spec_for(ctx.base_seed, index);
        json!({"kind": kind, "spec": s, "index": index})
    }
    fn assumptions(&self) -> Vec<String> {
        vec![
            "the checked profile is release + overflow-checks + debug-assertions: the arithmetic semantics of the dev/test profile at usable speed (ragc has no debug_assert!)".into(),
            "both builds execute the same schedule because every scheduling decision is a pure function of the seed and the (identical) sequence of scheduling points".into(),
        ]
    }
    fn components_real(&self) -> Vec<&'static str> { super::c01::REAL.to_vec() }
    fn components_stub(&self) -> Vec<&'static str> { super::c01::STUB.to_vec() }
}
