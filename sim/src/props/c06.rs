//! C06 — bounded priority queue: exactly-once, priority order, capacity bound, close.

use super::{Ctx, Prop, Tier};
use crate::engines::queue::{self, QueueSpec};
use crate::report::{RunReport, Violation};
use crate::sched::{Policy, SchedSpec};
use crate::seed;
use serde_json::{json, Value};

pub struct C06;

fn report(spec: &QueueSpec, run: queue::QueueRun, index: u64, want_sample: bool) -> RunReport {
    let mut r = RunReport::default();
    r.evaluations = 1;
    r.digest = run.stats.trace_digest ^ run.stats.history_digest.rotate_left(17);
    r.nontrivial = run.stats.tasks >= 2 && run.stats.preemptions >= 1;
    r.count("ops", run.stats.ops);
    r.count("admitted", run.stats.admitted);
    r.count("taken", run.stats.taken);
    r.count("probe.producer_blocked_full", run.stats.waits_full);
    r.count("probe.consumer_blocked_empty", run.stats.waits_empty);
    r.count("probe.try_push_would_block_with_room", run.stats.would_block_with_room);
    r.count("ill_formed_deadlocks", run.stats.ill_formed_deadlock as u64);
    r.count("structured_open_deadlocks", run.stats.structured_open_deadlock as u64);
    r.count("histories_checked_by_hook_free_linearizability_search", run.stats.lin_checked as u64);
    r.count("steps_total", run.stats.steps);
    r.count("preemptions", run.stats.preemptions);
    r.count(&format!("sched.{}", spec.sched.name()), 1);
    r.count(if spec.structured { "scenario.structured" } else { "scenario.freeform" }, 1);
    r.max("max_steps_seen", run.stats.steps);
    r.max("max_tasks", run.stats.tasks as u64);
    if want_sample {
        r.sample = Some(json!({"index": index, "spec": spec, "steps": run.stats.steps,
            "events": run.events.len()}));
    }
    if let Some((class, detail)) = run.violation {
        // the replay spec carries the explicit schedule actually taken
        let mut explicit = spec.clone();
        explicit.sched = SchedSpec { policy: Policy::Replay { choices: run.choices.clone() }, seed: spec.sched.seed };
        r.violations.push(Violation {
            property: "C06".into(),
            class,
            detail,
            spec: serde_json::to_value(&explicit).unwrap(),
            engine: "queue-sim".into(),
            index,
            event_log_digest: run.stats.history_digest,
        });
    }
    r
}

impl Prop for C06 {
    fn id(&self) -> &'static str {
        "C06"
    }
    fn engine(&self) -> &'static str {
        "queue-sim"
    }
    fn level(&self) -> &'static str {
        "exploration"
    }
    fn rule(&self) -> &'static str {
        "each evaluation = one seeded script set (1-8 shuttle tasks over the real MemoryBoundedQueue; capacity 0..64; sizes 0..cap+1; structured producer/consumer/closer and free-form scripts) under one seeded schedule; the under-lock event log is replayed against the sequential queue model. distinct_nontrivial = number of distinct (schedule-trace digest, operation-history digest) pairs among runs with >=2 tasks and >=1 preemption (measured)."
    }
    fn runs(&self, tier: Tier) -> u64 {
        match tier {
            Tier::Quick => 1_200_000,
            Tier::Thorough => 60_000_000,
        }
    }
    fn run_chunk(&self, ctx: &Ctx, indices: &[u64]) -> Vec<RunReport> {
        let specs: Vec<QueueSpec> =
            indices.iter().map(|&i| queue::generate(seed::run_seed(ctx.base_seed, i))).collect();
        let runs = queue::execute_batch(&specs);
        runs.into_iter()
            .zip(specs.iter().zip(indices))
            .map(|(run, (spec, &i))| report(spec, run, i, i < 2))
            .collect()
    }
    fn replay(&self, _ctx: &Ctx, spec: &Value) -> RunReport {
        let spec: QueueSpec = serde_json::from_value(spec.clone()).expect("bad C06 spec");
        let run = queue::execute(&spec);
        report(&spec, run, 0, false)
    }
    fn shrink(&self, spec: &Value) -> Vec<Value> {
        let spec: QueueSpec = match serde_json::from_value(spec.clone()) {
            Ok(s) => s,
            Err(_) => return vec![],
        };
        let mut out = Vec::new();
        // drop a whole task (not main)
        for t in (1..spec.scripts.len()).rev() {
            let mut s = spec.clone();
            s.scripts.remove(t);
            for sc in s.scripts.iter_mut() {
                for op in sc.iter_mut() {
                    if let queue::Op::Join(ids) = op {
                        ids.retain(|&i| i != t as u32);
                        for i in ids.iter_mut() {
                            if *i > t as u32 {
                                *i -= 1;
                            }
                        }
                    }
                }
            }
            out.push(s);
        }
        // drop single ops
        for t in 0..spec.scripts.len() {
            for i in (0..spec.scripts[t].len()).rev() {
                if matches!(spec.scripts[t][i], queue::Op::Join(_)) {
                    continue;
                }
                let mut s = spec.clone();
                s.scripts[t].remove(i);
                out.push(s);
            }
        }
        // shorten the explicit schedule prefix
        if let Policy::Replay { choices } = &spec.sched.policy {
            let mut n = choices.len();
            while n > 0 {
                n /= 2;
                let mut s = spec.clone();
                s.sched.policy = Policy::Replay { choices: choices[..n].to_vec() };
                out.push(s);
            }
        }
        out.into_iter().map(|s| serde_json::to_value(&s).unwrap()).collect()
    }
    fn assumptions(&self) -> Vec<String> {
        vec![
            "shuttle explores sequentially consistent executions only; the queue uses one mutex and two condvars, no atomics".into(),
            "the cfg(ragc_verif) event records in memory_bounded_queue.rs are written under the queue mutex and give the linearisation order; they are cross-checked against each operation's invoke/return and result".into(),
            "liveness is judged only after close (that is all the property promises); deadlocks of an open queue are counted as ill-formed scripts".into(),
        ]
    }
    fn components_real(&self) -> Vec<&'static str> {
        vec!["ragc-core::memory_bounded_queue (all public operations)"]
    }
    fn components_stub(&self) -> Vec<&'static str> {
        vec!["std::sync::{Mutex,Condvar,Arc} -> shuttle", "std::thread -> shuttle tasks", "caller threads -> PRNG-generated scripts"]
    }
}
