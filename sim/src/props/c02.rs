//! C02 — archives conform to the AGC v3 format: an independent decoder (agcref) agrees.
//! Also carries C03 part 1: the segment tables ragc's reader reports equal what agcref decodes
//! from the same bytes.

use super::{Ctx, Prop, Tier};
use crate::engines::pipeline::{self, PipeSpec};
use crate::oracle::agcref;
use crate::report::{RunReport, Violation};
use crate::sched::{Policy, SchedSpec};
use crate::seed;
use crate::simrun::{run_plain, Outcome};
use serde_json::{json, Value};

pub struct C02;

fn judge(spec: &PipeSpec, w: &crate::gen::genome::Workload, run: pipeline::PipeRun, index: u64, want_sample: bool) -> RunReport {
    let mut r = RunReport::default();
    r.evaluations = 1;
    r.digest = run.trace_digest;
    r.nontrivial = run.tasks >= 2 && run.preemptions >= 1;
    r.count("steps_total", run.steps);
    r.count(&format!("sched.{}", spec.sched.name()), 1);
    let ok = matches!(run.outcome, Outcome::Done) && matches!(run.create, Some(Ok(())));
    if !ok {
        r.count("create_not_ok", 1);
        return r;
    }
    let bytes = run.world.get_file(pipeline::ARCHIVE_PATH).unwrap_or_default();
    r.digest ^= seed::fnv64(&bytes);
    r.count("archives_decoded", 1);
    r.count("archive_bytes", bytes.len() as u64);
    let mut viol: Option<(String, String)> = None;
    match std::panic::catch_unwind(|| agcref::decode(&bytes)) {
        Err(_) => viol = Some(("agcref-panic".into(), "the independent decoder panicked (harness defect or wildly malformed archive)".into())),
        Ok(Err(e)) => viol = Some(("not-decodable".into(), format!("the format-rules decoder cannot read the archive: {e}"))),
        Ok(Ok(d)) => {
            r.count("probe.lz_groups", d.lz_groups as u64);
            r.count("probe.raw_groups", d.raw_groups as u64);
            r.count("probe.packs_decoded", d.packs_seen as u64);
            r.count("probe.tuple_packed_refs", d.tuple_packed_refs as u64);
            r.count("probe.raw_stored_parts", d.raw_stored_parts as u64);
            r.max("max_in_group_id", d.max_in_group_id as u64);
            if d.max_in_group_id > 50 {
                r.count("probe.more_than_50_ids_in_a_group", 1);
            }
            if d.samples.len() > 50 {
                r.count("probe.multi_batch_metadata", 1);
            }
            if !d.issues.is_empty() {
                viol = Some(("format-rule".into(), format!("{} rule violations, first: {}", d.issues.len(), d.issues[0])));
            } else if (d.k, d.min_match_len, d.segment_size) != (spec.cfg.k, spec.cfg.min_match_len, spec.cfg.segment_size) {
                viol = Some(("params".into(), format!("params stream says k={} min_match={} segment_size={}, create was given {} {} {}", d.k, d.min_match_len, d.segment_size, spec.cfg.k, spec.cfg.min_match_len, spec.cfg.segment_size)));
            } else {
                // (a) identical to the input model
                let want: Vec<&str> = w.samples.iter().map(|s| s.name.as_str()).collect();
                let got: Vec<&str> = d.samples.iter().map(|s| s.name.as_str()).collect();
                if want != got {
                    viol = Some(("sample-list".into(), format!("decoder lists {:?}.., input {:?}..", &got[..got.len().min(4)], &want[..want.len().min(4)])));
                } else {
                    'outer: for (ds, ws) in d.samples.iter().zip(w.samples.iter()) {
                        if ds.contigs.len() != ws.contigs.len() {
                            viol = Some(("contig-count".into(), format!("sample {}: {} contigs decoded, {} in the input", ds.name, ds.contigs.len(), ws.contigs.len())));
                            break;
                        }
                        for (dc, (wn, wb)) in ds.contigs.iter().zip(ws.contigs.iter()) {
                            if dc.name != wn.trim() {
                                viol = Some(("contig-name".into(), format!("sample {}: decoded name {:?}, input {:?}", ds.name, dc.name, wn)));
                                break 'outer;
                            }
                            if &dc.bases != wb {
                                viol = Some(("bases-differ".into(), pipeline::describe_diff(&ds.name, wn, &dc.bases, wb)));
                                break 'outer;
                            }
                            r.count("segments_decoded", dc.segs.len() as u64);
                        }
                    }
                }
                // (b) C03 part 1: ragc's own reader reports the same segment tables
                if viol.is_none() {
                    let mut world = ragc_common::verif::World::new();
                    world.put_file(pipeline::ARCHIVE_PATH, bytes.clone());
                    let (res, _) = run_plain(world, || {
                        let mut dd = ragc_core::Decompressor::open(pipeline::ARCHIVE_PATH, ragc_core::DecompressorConfig { verbosity: 0 }).map_err(|e| format!("{e:#}"))?;
                        dd.get_all_segments().map_err(|e| format!("{e:#}"))
                    });
                    match res {
                        Ok(Ok(all)) => {
                            let flat: Vec<(String, String, Vec<(u32, u32, bool, u32)>)> = d
                                .samples
                                .iter()
                                .flat_map(|s| s.contigs.iter().map(move |c| (s.name.clone(), c.name.clone(), c.segs.iter().map(|x| (x.group, x.in_group, x.rc, x.raw_len)).collect())))
                                .collect();
                            let theirs: Vec<(String, String, Vec<(u32, u32, bool, u32)>)> =
                                all.iter().map(|(s, c, v)| (s.clone(), c.clone(), v.iter().map(|x| (x.group_id, x.in_group_id, x.is_rev_comp, x.raw_length)).collect())).collect();
                            if flat != theirs {
                                let pos = flat.iter().zip(theirs.iter()).position(|(a, b)| a != b);
                                viol = Some(("segment-table".into(), format!("ragc's reader and the format-rules decoder disagree on the segment tables (first difference at contig #{pos:?} of {}/{})", flat.len(), theirs.len())));
                            }
                        }
                        Ok(Err(e)) => viol = Some(("reader-failed".into(), format!("get_all_segments: {e}"))),
                        Err(p) => viol = Some(("reader-panic".into(), p)),
                    }
                }
            }
        }
    }
    if want_sample {
        r.sample = Some(json!({"index": index, "gen": spec.gen, "cfg": spec.cfg, "archive_bytes": bytes.len()}));
    }
    if let Some((class, detail)) = viol {
        let mut e = spec.clone();
        e.sched = SchedSpec { policy: Policy::Replay { choices: run.choices.clone() }, seed: spec.sched.seed };
        r.violations.push(Violation {
            property: "C02".into(),
            class,
            detail,
            spec: serde_json::to_value(&e).unwrap(),
            engine: "pipeline-sim + agcref".into(),
            index,
            event_log_digest: seed::fnv64(&bytes),
        });
    }
    r
}

fn run_specs(specs: Vec<PipeSpec>, indices: &[u64]) -> Vec<RunReport> {
    let runs = pipeline::execute_batch(&specs);
    runs.into_iter().zip(specs.iter().zip(indices)).map(|((w, run), (spec, &i))| judge(spec, &w, run, i, i < 2)).collect()
}

impl Prop for C02 {
    fn id(&self) -> &'static str { "C02" }
    fn engine(&self) -> &'static str { "pipeline-sim + agcref" }
    fn level(&self) -> &'static str { "exploration" }
    fn rule(&self) -> &'static str {
        "each evaluation = one archive produced by a simulated create of the C01 space (so on every schedule-dependent layout), parsed by agcref - an independent reader written from the format rules only (footer + directory, length-prefixed big-endian integers, params, collection streams with name delta coding and the in-group-id predictor, x<base64>r/d naming, marker-tagged zstd / tuple-packed parts, 0xFF-separated packs of 50, raw-group placeholder, LZ-diff V2 text): it must recover every sample identically to the input, report no addressing/metadata rule violation (one reference part per LZ group, id->pack mapping, raw length = decoded length, metadata convention, stream ids 0-2, version 3.0), and agree with ragc's reader on all segment tables. distinct_nontrivial = distinct (schedule trace, archive bytes) digests among runs with >=2 tasks and >=1 preemption."
    }
    fn runs(&self, tier: Tier) -> u64 {
        match tier { Tier::Quick => 25_000, Tier::Thorough => 1_200_000 }
    }
    fn run_chunk(&self, ctx: &Ctx, indices: &[u64]) -> Vec<RunReport> {
        let specs: Vec<PipeSpec> = indices
            .iter()
            .map(|&i| {
                let rs = seed::run_seed(ctx.base_seed ^ 0xC02, i);
                let mut s = pipeline::generate(rs);
                // match lengths outside the usual 15..32 (own stream): the command line accepts them,
                // and the value recorded in `params` is what every other reader decodes with
                let mut r = seed::Rng::new(rs ^ 0x4D4D);
                if r.pct(8) {
                    s.cfg.min_match_len = *r.pick(&[8u32, 10, 12, 14, 33, 36, 40, 48]);
                }
                s
            })
            .collect();
        run_specs(specs, indices)
    }
    fn replay(&self, _ctx: &Ctx, spec: &Value) -> RunReport {
        let spec: PipeSpec = serde_json::from_value(spec.clone()).expect("bad C02 spec");
        run_specs(vec![spec], &[0]).pop().unwrap()
    }
    fn shrink(&self, spec: &Value) -> Vec<Value> { super::c01::shrink_pipe_public(spec) }
    fn assumptions(&self) -> Vec<String> {
        vec![
            "no C++ agc binary or C++-written fixture exists offline: the trusted base is agcref (sim/src/oracle/agcref.rs) and the format digest in DESIGN.md Appendix A it was written from".into(),
            "agcref links the zstd crate for raw zstd frames and shares nothing else with ragc".into(),
        ]
    }
    fn components_real(&self) -> Vec<&'static str> { super::c01::REAL.to_vec() }
    fn components_stub(&self) -> Vec<&'static str> { super::c01::STUB.to_vec() }
}
