//! C17 — CLI extraction composes and exit codes tell the truth.
//!
//! Engine G "cli-sim": the real command functions of ragc-cli/src/main.rs (`getset`, `listset`,
//! `listctg`, `ctglen`, `getrange`, and `create` with every flag) run in-process; the archive, the
//! `-o` files, the temporary file of `getset` and standard output all live on the sim disk, so
//! every byte a command produces is observed and every read or write it makes can be made to fail.
//! A command that returns `Err` (or panics) is a non-zero exit status, `Ok` is exit status 0 —
//! that mapping is Rust's `fn main() -> Result` and is the trusted base.

use super::{Ctx, Prop, Tier};
use crate::engines::pipeline::{self, PipeSpec};
use crate::gen::genome::{Workload, LETTERS};
use crate::report::{RunReport, Violation};
use crate::seed::{self, Rng};
use crate::simrun::{run_batch, run_plain, Job, Outcome};
use ragc_common::verif::{World, STDOUT_PATH};
use serde::{Deserialize, Serialize};
use serde_json::{json, Value};
use std::path::PathBuf;
use std::sync::Arc;

pub struct C17;

const ARCHIVE: &str = pipeline::ARCHIVE_PATH;
const OUT: &str = "/sim/result.out";

#[derive(Clone, Debug, Serialize, Deserialize, PartialEq)]
pub enum Cmd {
    Getset { samples: Vec<String>, prefix: Option<String>, to_file: bool },
    Listset { to_file: bool },
    Listctg { samples: Vec<String>, to_file: bool },
    Ctglen { sample: String, contig: String },
    Getrange { sample: String, contig: String, start: u64, end: Option<u64>, raw: bool, to_file: bool },
}

#[derive(Clone, Debug, Serialize, Deserialize, PartialEq)]
pub enum Fault {
    /// the n-th read call on the archive fails once with EIO
    ReadCallOnce(u64),
    /// every read of the archive at or beyond this offset fails
    ReadFrom(u64),
    /// the archive is cut to this many bytes
    Truncated(u64),
    /// the first write reaching this offset of the output (`-o` file or stdout) is cut, later ones fail (ENOSPC)
    WriteAt(u64),
    /// the archive path does not exist
    Missing,
}

#[derive(Clone, Debug, PartialEq)]
pub struct CmdOut {
    /// Ok = exit status 0; Err = error return or panic (non-zero exit status)
    pub result: Result<(), String>,
    pub panicked: bool,
    /// what the command delivered: the `-o` file if asked for, else standard output
    pub delivered: Vec<u8>,
    pub fault_fired: bool,
}

fn to_file(cmd: &Cmd) -> bool {
    match cmd {
        Cmd::Getset { to_file, .. } | Cmd::Listset { to_file } | Cmd::Listctg { to_file, .. } | Cmd::Getrange { to_file, .. } => *to_file,
        Cmd::Ctglen { .. } => false,
    }
}

pub fn run_cmd(bytes: &Arc<Vec<u8>>, cmd: &Cmd, fault: Option<&Fault>, bufreader_cap: usize) -> CmdOut {
    let mut world = World::new();
    world.knobs.bufreader_cap = bufreader_cap.max(1);
    let out_target = if to_file(cmd) { OUT } else { STDOUT_PATH };
    let mut arch: Vec<u8> = bytes.as_ref().clone();
    let mut put = true;
    match fault {
        Some(Fault::ReadCallOnce(n)) => {
            world.faults.target = ARCHIVE.to_string();
            world.faults.read_fail_at_call = Some(*n);
        }
        Some(Fault::ReadFrom(off)) => {
            world.faults.target = ARCHIVE.to_string();
            world.faults.read_fail_at_offset = Some(*off);
        }
        Some(Fault::Truncated(n)) => arch.truncate(*n as usize),
        Some(Fault::WriteAt(off)) => {
            world.faults.target = out_target.to_string();
            world.faults.write_fail_at_offset = Some(*off);
            world.faults.write_errno = 28;
        }
        Some(Fault::Missing) => put = false,
        None => {}
    }
    if put {
        world.put_file(ARCHIVE, arch);
    }
    let cmd2 = cmd.clone();
    let (res, world) = run_plain(world, move || -> Result<(), String> {
        use crate::ragc_cli::verif_cli as cli;
        let a = PathBuf::from(ARCHIVE);
        let o = |f: bool| if f { Some(PathBuf::from(OUT)) } else { None };
        let r = match cmd2 {
            Cmd::Getset { samples, prefix, to_file } => {
                // -v of getset (diagnostics on stderr only): derived from the request
                let v = (samples.len() + prefix.as_ref().map(|p| p.len()).unwrap_or(0)) as u32 % 3;
                cli::getset(a, samples, prefix, o(to_file), v)
            }
            Cmd::Listset { to_file } => cli::listset(a, o(to_file)),
            Cmd::Listctg { samples, to_file } => cli::listctg(a, samples, o(to_file)),
            Cmd::Ctglen { sample, contig } => cli::ctglen(a, sample, contig),
            Cmd::Getrange { sample, contig, start, end, raw, to_file } => {
                cli::getrange(a, sample, contig, start as usize, end.map(|e| e as usize), o(to_file), if raw { "raw".into() } else { "fasta".into() }, 0)
            }
        };
        r.map_err(|e| format!("{e:#}"))
    });
    let fault_fired = world.fault_fired.values().sum::<u64>() > 0 || matches!(fault, Some(Fault::Truncated(_)) | Some(Fault::Missing));
    let delivered = world.get_file(out_target).unwrap_or_default();
    match res {
        Ok(r) => CmdOut { result: r, panicked: false, delivered, fault_fired },
        Err(p) => CmdOut { result: Err(format!("panic: {p}")), panicked: true, delivered, fault_fired },
    }
}

/// What `getset <sample>` has to print for one sample according to the input model: records in
/// input order, the contig name as header, the bases upper-cased, wrapped at 80.
fn model_fasta(w: &Workload, sample: &str) -> Option<Vec<u8>> {
    let s = w.samples.iter().find(|s| s.name == sample)?;
    let mut out = Vec::new();
    for (name, codes) in &s.contigs {
        out.push(b'>');
        out.extend_from_slice(name.trim().as_bytes());
        out.push(b'\n');
        let letters: Vec<u8> = codes.iter().map(|&c| LETTERS[c as usize]).collect();
        for ch in letters.chunks(80) {
            out.extend_from_slice(ch);
            out.push(b'\n');
        }
    }
    Some(out)
}

#[derive(Clone, Debug, Serialize, Deserialize)]
pub struct CreateFlags {
    pub adaptive: bool,
    pub concatenated: bool,
    pub batch: bool,
}

#[derive(Serialize, Deserialize)]
struct ReplaySpec {
    source: PipeSpec,
    cmd: Option<Cmd>,
    fault: Option<Fault>,
    #[serde(default)]
    bufcap: Option<usize>,
    #[serde(default)]
    create_flags: Option<CreateFlags>,
}

struct FlagJob {
    cfg: pipeline::PipeCfg,
    inputs: Vec<String>,
    flags: CreateFlags,
}

/// `create` with a flag combination, under the simulator (workers are shuttle tasks).
fn run_create_flags(source: &PipeSpec, flags: &CreateFlags) -> (Outcome, Option<Result<(), String>>, World, Workload) {
    let w = crate::gen::genome::generate(&source.gen);
    let files = pipeline::input_files(source, &w);
    let world = pipeline::make_world(source, &files);
    let inputs: Vec<String> = files.iter().map(|(p, _)| p.clone()).collect();
    let job = Job { spec: Arc::new(FlagJob { cfg: source.cfg.clone(), inputs, flags: flags.clone() }), world, sched: source.sched.clone() };
    let mut res = run_batch(vec![job], pipeline::MAX_STEPS, 1 << 20, |j: &FlagJob| {
        std::env::remove_var("RAGC_SYNC_PER_SAMPLE");
        rayon::verif::set_pool(j.cfg.rayon_pool as usize);
        crate::ragc_cli::verif_cli::create(
            PathBuf::from(ARCHIVE),
            j.inputs.iter().map(PathBuf::from).collect(),
            j.cfg.k,
            j.cfg.segment_size,
            j.cfg.min_match_len,
            j.cfg.pack_cardinality,
            j.cfg.compression_level,
            j.cfg.verbosity,
            j.flags.adaptive,
            j.flags.concatenated,
            Some(j.cfg.threads as usize),
            j.flags.batch,
            &j.cfg.queue_capacity,
            j.cfg.fallback_frac,
        )
        .map_err(|e| format!("{e:#}"))
    });
    let r = res.pop().unwrap();
    (r.outcome, r.value, r.world, w)
}

fn lines(names: &[String]) -> Vec<u8> {
    let mut v = Vec::new();
    for n in names {
        v.extend_from_slice(n.as_bytes());
        v.push(b'\n');
    }
    v
}

fn show(b: &[u8]) -> String {
    let s = String::from_utf8_lossy(b);
    let t: String = s.chars().take(90).collect();
    format!("{} bytes {:?}", b.len(), t)
}

fn explore(source: PipeSpec, only: Option<ReplaySpec>, index: u64, tier: Tier, want_sample: bool) -> RunReport {
    let mut r = RunReport::default();
    let mut first: Option<Violation> = None;
    let mk = |class: &str, detail: String, cmd: Option<Cmd>, fault: Option<Fault>, bufcap: Option<usize>, flags: Option<CreateFlags>| {
        // the "event log" of a CLI run is the command line, the fault and the exit status class
        let digest = seed::fnv64(format!("{class}|{cmd:?}|{fault:?}|{flags:?}").as_bytes());
        Violation {
            property: "C17".into(),
            class: class.into(),
            detail,
            spec: serde_json::to_value(&ReplaySpec { source: source.clone(), cmd, fault, bufcap, create_flags: flags }).unwrap(),
            engine: "cli-sim".into(),
            index,
            event_log_digest: digest,
        }
    };
    let mut rr = Rng::new(seed::fnv64(serde_json::to_string(&source.gen).unwrap().as_bytes()) ^ 0xC17);

    // ---- create with flag combinations: exit status 0 implies an archive that lists every sample
    let flag_sets: Vec<CreateFlags> = match &only {
        Some(o) => o.create_flags.iter().cloned().collect(),
        None => {
            let mut v = vec![CreateFlags { adaptive: false, concatenated: false, batch: false }];
            // one other combination per run (7 of them exist)
            let c = 1 + rr.below(7);
            v.push(CreateFlags { adaptive: c & 1 != 0, concatenated: c & 2 != 0, batch: c & 4 != 0 });
            v
        }
    };
    let mut archive: Option<(Arc<Vec<u8>>, Workload)> = None;
    for flags in &flag_sets {
        let (outcome, value, world, w) = run_create_flags(&source, flags);
        r.evaluations += 1;
        r.count(&format!("create.flags.a{}c{}b{}", flags.adaptive as u8, flags.concatenated as u8, flags.batch as u8), 1);
        let plain = !flags.adaptive && !flags.concatenated && !flags.batch;
        match (&outcome, &value) {
            (Outcome::Done, Some(Ok(()))) => {
                r.count("create.exit_0", 1);
                // exit status 0: the archive exists and lists every input sample
                let bytes = world.get_file(ARCHIVE);
                let want: Vec<String> = w.samples.iter().map(|s| s.name.clone()).collect();
                let verdict: Result<(), String> = match &bytes {
                    None => Err("no archive file was written".into()),
                    Some(b) => {
                        let out = run_cmd(&Arc::new(b.clone()), &Cmd::Listset { to_file: false }, None, 8192);
                        match out.result {
                            Err(e) => Err(format!("the archive ({} bytes) cannot be listed: {e}", b.len())),
                            Ok(()) if out.delivered != lines(&want) => Err(format!("listset prints {}, the inputs were {:?}", show(&out.delivered), &want[..want.len().min(5)])),
                            Ok(()) => Ok(()),
                        }
                    }
                };
                if let Err(e) = verdict {
                    r.count("bad.create-exit-0-without-usable-archive", 1);
                    if first.is_none() {
                        first = Some(mk("create-exit-0-without-usable-archive", format!("create (adaptive={} concatenated={} batch={}) returned Ok but {e}", flags.adaptive, flags.concatenated, flags.batch), None, None, None, Some(flags.clone())));
                    }
                } else if plain {
                    archive = Some((Arc::new(bytes.unwrap()), w));
                }
            }
            (Outcome::Done, Some(Err(_))) => r.count("create.exit_nonzero", 1),
            (Outcome::Panic(_), _) => r.count("create.panic_exit_nonzero", 1),
            (Outcome::Deadlock(m), _) | (Outcome::MaxSteps(m), _) => {
                // termination is C05's business; count, do not judge here
                let _ = m;
                r.count("create.did_not_terminate", 1);
            }
            (Outcome::Done, None) => r.count("create.no_value", 1),
        }
    }
    let replay_cmd = only.as_ref().and_then(|o| o.cmd.clone());
    if only.is_some() && replay_cmd.is_none() {
        if let Some(v) = first {
            r.violations.push(v);
        }
        return r;
    }
    // the extraction side needs the plain archive
    if archive.is_none() {
        let (outcome, value, world, w) = run_create_flags(&source, &CreateFlags { adaptive: false, concatenated: false, batch: false });
        if matches!((&outcome, &value), (Outcome::Done, Some(Ok(())))) {
            if let Some(b) = world.get_file(ARCHIVE) {
                archive = Some((Arc::new(b), w));
            }
        }
    }
    let Some((bytes, w)) = archive else {
        r.count("source_create_failed", 1);
        if let Some(v) = first {
            r.violations.push(v);
        }
        return r;
    };
    r.count("archives", 1);
    let names: Vec<String> = w.samples.iter().map(|s| s.name.clone()).collect();

    // reference outputs: single-sample extractions on a healthy archive
    let single = |s: &str, to_file: bool| run_cmd(&bytes, &Cmd::Getset { samples: vec![s.to_string()], prefix: None, to_file }, None, 8192);
    let mut singles: std::collections::BTreeMap<String, Vec<u8>> = Default::default();
    for n in &names {
        let a = single(n, true);
        r.evaluations += 1;
        let model = model_fasta(&w, n).unwrap();
        if a.result.is_err() || a.delivered != model {
            r.count("bad.single-extraction", 1);
            if first.is_none() {
                first = Some(mk("single-extraction", format!("getset {n} -o: {:?}, delivered {} - the input model says {}", a.result, show(&a.delivered), show(&model)), Some(Cmd::Getset { samples: vec![n.clone()], prefix: None, to_file: true }), None, None, None));
            }
        }
        singles.insert(n.clone(), model);
        if names.len() > 8 && singles.len() >= 8 {
            // many samples: the remaining references come from the model alone
            for m in &names {
                singles.entry(m.clone()).or_insert_with(|| model_fasta(&w, m).unwrap());
            }
            break;
        }
    }
    let concat = |list: &[String]| -> Vec<u8> { list.iter().flat_map(|n| singles[n].clone()).collect() };
    let ctg_lines = |list: &[String]| -> Vec<u8> {
        let mut v = Vec::new();
        for n in list {
            let s = w.samples.iter().find(|s| &s.name == n).unwrap();
            for (c, _) in &s.contigs {
                v.extend_from_slice(format!("{n}\t{}\n", c.trim()).as_bytes());
            }
        }
        v
    };

    // ---- generated commands with their expected output
    let mut cases: Vec<(Cmd, Option<Vec<u8>>)> = Vec::new(); // None = must fail
    let pick_list = |rr: &mut Rng, max: u64| -> Vec<String> { (0..rr.range(1, max)).map(|_| names[rr.below(names.len() as u64) as usize].clone()).collect() };
    for to_file in [false, true] {
        for _ in 0..3 {
            let l = pick_list(&mut rr, 4);
            cases.push((Cmd::Getset { samples: l.clone(), prefix: None, to_file }, Some(concat(&l))));
        }
        // all samples in archive order and in reverse
        cases.push((Cmd::Getset { samples: names.iter().take(12).cloned().collect(), prefix: None, to_file }, Some(concat(&names.iter().take(12).cloned().collect::<Vec<_>>()))));
        // prefixes: of an existing name (any length incl. 0 and the full name)
        for _ in 0..3 {
            let n = &names[rr.below(names.len() as u64) as usize];
            let cut = rr.below(n.len() as u64 + 1) as usize;
            let p: String = n.chars().take(cut).collect();
            let m: Vec<String> = names.iter().filter(|x| x.starts_with(&p)).cloned().collect();
            cases.push((Cmd::Getset { samples: vec![], prefix: Some(p), to_file }, Some(concat(&m))));
        }
        cases.push((Cmd::Getset { samples: vec![], prefix: Some("no_such_prefix".into()), to_file }, None));
        cases.push((Cmd::Getset { samples: vec![], prefix: None, to_file }, None));
        // an unknown name anywhere in the list
        let mut l = pick_list(&mut rr, 3);
        l.insert(rr.below(l.len() as u64 + 1) as usize, "no_such_sample".into());
        cases.push((Cmd::Getset { samples: l, prefix: None, to_file }, None));
        cases.push((Cmd::Listset { to_file }, Some(lines(&names))));
        let l = pick_list(&mut rr, 4);
        cases.push((Cmd::Listctg { samples: l.clone(), to_file }, Some(ctg_lines(&l))));
        let mut l = pick_list(&mut rr, 2);
        l.push("no_such_sample".into());
        cases.push((Cmd::Listctg { samples: l, to_file }, None));
    }
    {
        let s = &w.samples[rr.below(w.samples.len() as u64) as usize];
        let (c, codes) = &s.contigs[rr.below(s.contigs.len() as u64) as usize];
        let cname = c.trim().to_string();
        cases.push((Cmd::Ctglen { sample: s.name.clone(), contig: cname.clone() }, Some(format!("{}\n", codes.len()).into_bytes())));
        cases.push((Cmd::Ctglen { sample: s.name.clone(), contig: "no_such_contig".into() }, None));
        cases.push((Cmd::Ctglen { sample: "no_such_sample".into(), contig: cname.clone() }, None));
        let a = rr.below(codes.len() as u64 + 1);
        let b = a + rr.below(codes.len() as u64 + 2 - a);
        let slice: Vec<u8> = codes[(a as usize).min(codes.len())..(b as usize).min(codes.len())].iter().map(|&x| LETTERS[x as usize]).collect();
        for to_file in [false, true] {
            cases.push((Cmd::Getrange { sample: s.name.clone(), contig: cname.clone(), start: a, end: Some(b), raw: true, to_file }, Some(slice.clone())));
        }
        cases.push((Cmd::Getrange { sample: s.name.clone(), contig: "no_such_contig".into(), start: 0, end: Some(1), raw: true, to_file: false }, None));
    }
    if let Some(c) = &replay_cmd {
        // keep the generated expectation of the same command if it is among the cases, else derive
        let exp = cases.iter().find(|(x, _)| x == c).map(|(_, e)| e.clone());
        let exp = exp.unwrap_or_else(|| expected_of(c, &names, &singles, &w));
        cases = vec![(c.clone(), exp)];
    }

    for (cmd, expected) in &cases {
        let only_fault = only.as_ref().and_then(|o| o.fault.clone());
        if only.is_none() || only_fault.is_none() {
            // ---- fault-free: composition and truthful failures
            let out = run_cmd(&bytes, cmd, None, 8192);
            r.evaluations += 1;
            r.count("commands_fault_free", 1);
            match (expected, &out.result) {
                (Some(exp), Ok(())) => {
                    if &out.delivered != exp {
                        let class = match cmd {
                            Cmd::Getset { prefix: Some(_), .. } => "prefix-composition",
                            Cmd::Getset { .. } => "composition",
                            _ => "listing",
                        };
                        r.count(&format!("bad.{class}"), 1);
                        if first.is_none() {
                            first = Some(mk(class, format!("{cmd:?} delivered {}, the concatenation of the single extractions is {}", show(&out.delivered), show(exp)), Some(cmd.clone()), None, None, None));
                        }
                    }
                }
                (Some(_), Err(e)) => {
                    r.count("bad.command-failed", 1);
                    if first.is_none() {
                        first = Some(mk("command-failed", format!("{cmd:?} on a healthy archive: {e}"), Some(cmd.clone()), None, None, None));
                    }
                }
                (None, Ok(())) => {
                    r.count("bad.failure-reported-as-success", 1);
                    if first.is_none() {
                        first = Some(mk("failure-reported-as-success", format!("{cmd:?} has to fail (unknown name / nothing requested) but returned Ok, delivered {}", show(&out.delivered)), Some(cmd.clone()), None, None, None));
                    }
                }
                (None, Err(_)) => r.count("failures_reported", 1),
            }
        }
        // ---- faults: a command that could not read its archive or write its output must not exit 0
        let Some(exp) = expected else { continue };
        let faults: Vec<(Fault, usize)> = match (&only, &only_fault) {
            (Some(o), Some(f)) => vec![(f.clone(), o.bufcap.unwrap_or(8192))],
            (Some(_), None) => vec![],
            (None, _) => {
                let n = if tier == Tier::Quick { 6 } else { 40 };
                let mut v = Vec::new();
                for _ in 0..n {
                    let cap = *rr.pick(&[8192usize, 512, 64, 7]);
                    let f = match rr.below(10) {
                        0..=2 => Fault::ReadCallOnce(rr.below(24)),
                        3..=4 => Fault::ReadFrom(rr.below(bytes.len() as u64)),
                        5..=6 => Fault::Truncated(rr.below(bytes.len() as u64)),
                        7..=8 => Fault::WriteAt(rr.below(exp.len() as u64 + 1)),
                        _ => Fault::Missing,
                    };
                    v.push((f, cap));
                }
                v
            }
        };
        for (f, cap) in faults {
            let out = run_cmd(&bytes, cmd, Some(&f), cap);
            r.evaluations += 1;
            r.count(&format!("fault.{}", match f { Fault::ReadCallOnce(_) => "eio_read_call", Fault::ReadFrom(_) => "read_err", Fault::Truncated(_) => "truncated_archive", Fault::WriteAt(_) => "enospc_output", Fault::Missing => "missing_archive" }), out.fault_fired as u64);
            r.count("commands_with_fault", 1);
            match &out.result {
                Err(_) => {
                    r.count(if out.panicked { "fault_exit_nonzero_by_panic" } else { "fault_exit_nonzero" }, 1);
                }
                Ok(()) => {
                    if &out.delivered == exp {
                        r.count("fault_not_reached_or_harmless", 1);
                    } else {
                        r.count("bad.exit-0-after-fault", 1);
                        if first.is_none() {
                            first = Some(mk("exit-0-after-fault", format!("{cmd:?} under {f:?} (reader buffer {cap}) returned Ok but delivered {}, expected {}", show(&out.delivered), show(exp)), Some(cmd.clone()), Some(f.clone()), Some(cap), None));
                        }
                    }
                }
            }
        }
    }
    if want_sample {
        r.sample = Some(json!({"index": index, "samples_in_archive": names.len(), "archive_bytes": bytes.len(),
            "example_commands": cases.iter().take(4).map(|(c, e)| json!({"cmd": c, "must_fail": e.is_none()})).collect::<Vec<_>>()}));
    }
    r.extra_digests.push(seed::fnv64(&bytes) ^ 0xC17);
    if let Some(v) = first {
        r.violations.push(v);
    }
    r
}

/// expected output of an explicit command (replay of a minimised spec)
fn expected_of(c: &Cmd, names: &[String], singles: &std::collections::BTreeMap<String, Vec<u8>>, w: &Workload) -> Option<Vec<u8>> {
    match c {
        Cmd::Getset { samples, prefix, .. } => {
            let list: Vec<String> = match prefix {
                Some(p) => names.iter().filter(|x| x.starts_with(p.as_str())).cloned().collect(),
                None => samples.clone(),
            };
            if list.is_empty() || list.iter().any(|n| !singles.contains_key(n)) {
                return None;
            }
            Some(list.iter().flat_map(|n| singles[n].clone()).collect())
        }
        Cmd::Listset { .. } => Some(lines(names)),
        Cmd::Listctg { samples, .. } => {
            let mut v = Vec::new();
            for n in samples {
                let s = w.samples.iter().find(|s| &s.name == n)?;
                for (c, _) in &s.contigs {
                    v.extend_from_slice(format!("{n}\t{}\n", c.trim()).as_bytes());
                }
            }
            Some(v)
        }
        Cmd::Ctglen { sample, contig } => {
            let s = w.samples.iter().find(|s| &s.name == sample)?;
            let (_, codes) = s.contigs.iter().find(|(c, _)| c.trim() == contig)?;
            Some(format!("{}\n", codes.len()).into_bytes())
        }
        Cmd::Getrange { sample, contig, start, end, raw, .. } => {
            let s = w.samples.iter().find(|s| &s.name == sample)?;
            let (_, codes) = s.contigs.iter().find(|(c, _)| c.trim() == contig)?;
            if !*raw {
                return None;
            }
            let e = end.unwrap_or(codes.len() as u64) as usize;
            let a = (*start as usize).min(codes.len());
            let e = e.min(codes.len()).max(a);
            Some(codes[a..e].iter().map(|&x| LETTERS[x as usize]).collect())
        }
    }
}

/// Source archives: 1..12 samples mostly, sometimes 51+ (two metadata batches), PanSN or not.
pub fn source_spec(run_seed: u64, index: u64) -> PipeSpec {
    let mut s = super::c08::source_spec(run_seed, index);
    s.cfg.rayon_pool = pipeline::draw_rayon_pool(run_seed);
    s
}

impl Prop for C17 {
    fn id(&self) -> &'static str { "C17" }
    fn engine(&self) -> &'static str { "cli-sim" }
    fn level(&self) -> &'static str { "exploration" }
    fn rule(&self) -> &'static str {
        "per seeded source (1, 2-6, 51+ and 101+ samples; per-sample files or one PanSN file): `create` is run under the simulator with no flag and with one other combination of --adaptive/--concatenated/--batch (exit status 0 must leave an archive whose listset prints every input sample); then ~45 generated commands (getset with 1-4 names incl. repeats, with all names, with prefixes of every length, with unknown names / prefixes / nothing requested; listset; listctg with several samples; ctglen; getrange), each to standard output and to an -o file on the sim disk, must deliver exactly the concatenation of the single-sample extractions (which must equal the input model) or fail; and each command is re-run under 6 (thorough: 40) faults - one archive read call failing once, every archive read from an offset failing, a truncated archive, a missing archive, ENOSPC at an offset of the -o file or of standard output - where exit status 0 is only acceptable with the complete fault-free output. Err or panic = non-zero exit status. distinct_nontrivial = distinct source archives."
    }
    fn runs(&self, tier: Tier) -> u64 {
        match tier { Tier::Quick => 1_600, Tier::Thorough => 40_000 }
    }
    fn run_chunk(&self, ctx: &Ctx, indices: &[u64]) -> Vec<RunReport> {
        indices.iter().map(|&i| explore(source_spec(seed::run_seed(ctx.base_seed ^ 0xC17, i), i), None, i, ctx.tier, i < 2)).collect()
    }
    fn replay(&self, ctx: &Ctx, spec: &Value) -> RunReport {
        let rs: ReplaySpec = serde_json::from_value(spec.clone()).expect("bad C17 spec");
        let source = rs.source.clone();
        explore(source, Some(rs), 0, ctx.tier, false)
    }
    fn shrink(&self, spec: &Value) -> Vec<Value> {
        let Ok(rs) = serde_json::from_value::<ReplaySpec>(spec.clone()) else { return vec![] };
        let mut out: Vec<ReplaySpec> = Vec::new();
        let with_source = |src: PipeSpec| ReplaySpec { source: src, cmd: rs.cmd.clone(), fault: rs.fault.clone(), bufcap: rs.bufcap, create_flags: rs.create_flags.clone() };
        if let Some(Cmd::Getset { samples, prefix, to_file }) = &rs.cmd {
            for i in 0..samples.len() {
                if samples.len() > 1 {
                    let mut l = samples.clone();
                    l.remove(i);
                    out.push(ReplaySpec { source: rs.source.clone(), cmd: Some(Cmd::Getset { samples: l, prefix: prefix.clone(), to_file: *to_file }), fault: rs.fault.clone(), bufcap: rs.bufcap, create_flags: None });
                }
            }
        }
        if rs.source.gen.max_len > 40 {
            let mut s = rs.source.clone();
            s.gen.max_len /= 2;
            out.push(with_source(s));
        }
        if rs.source.gen.ref_contigs > 1 {
            let mut s = rs.source.clone();
            s.gen.ref_contigs -= 1;
            out.push(with_source(s));
        }
        out.into_iter().map(|s| serde_json::to_value(&s).unwrap()).collect()
    }
    fn assumptions(&self) -> Vec<String> {
        vec![
            "exit status: a command function returning Err, or panicking, is a non-zero exit status and Ok is 0 (Rust's `fn main() -> Result<()>`); argument parsing by clap is not exercised, the command functions are called with the parsed values".into(),
            "standard output, -o files and getset's temporary file are files of the sim disk (hook H9); `println!` inside the command functions is redirected there and panics on a failed write like the real one".into(),
            "what a failing command leaves in its output is not judged, only its exit status; a command under a fault may fail or deliver the complete fault-free output".into(),
            "inspect and debug-cost are not covered".into(),
        ]
    }
    fn components_real(&self) -> Vec<&'static str> {
        vec![
            "ragc-cli: create_archive (all flags), getset_command, listset_command, listctg_command, ctglen_command, getrange_command",
            "ragc-core: Decompressor, GenomeWriter, StreamingQueueCompressor pipeline; ragc-common: Archive, CollectionV3",
        ]
    }
    fn components_stub(&self) -> Vec<&'static str> {
        vec![
            "process boundary: command functions called in-process, Err/panic = non-zero exit status",
            "stdout, -o files, temp file, archive -> SimFile on the in-memory SimDisk with read/write faults",
            "std::sync / std::thread -> shuttle (create only); rayon -> shim",
        ]
    }
}
