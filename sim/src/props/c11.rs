//! C11 — splitter selection: deterministic, strand-symmetric, singleton-only, spaced.
//!
//! Engine F "splitter-sim": the real `determine_splitters` (parallel k-mer collection on the
//! simulated rayon pool, see shadow/rayon), `determine_splitters_streaming`,
//! `determine_splitters_streaming_first_sample` and `find_candidate_kmers_multi` run as one
//! simulated execution: the pool's tasks are shuttle tasks under the harness scheduler, the
//! reference FASTA lives on the sim disk (plain / gzip / multi-member, any wrapping, short reads,
//! EINTR, or a hard read error at a generated offset).
//! A "run" is a group of three executions of one reference: (0) as generated, (1) the same
//! reference under another pool size / schedule / presentation / fault mix, (2) the reference with
//! its contigs permuted and some of them reverse-complemented.

use super::{Ctx, Prop, Tier};
use crate::engines::pipeline::BenignFaults;
use crate::gen::fasta::{self, Presentation};
use crate::gen::genome::{self, GenParams, SampleModel};
use crate::report::{RunReport, Violation};
use crate::sched::{Policy, SchedSpec};
use crate::seed::{self, Rng};
use crate::simrun::{run_batch, Job, Outcome};
use ahash::AHashSet;
use ragc_common::verif::{FaultPlan, World};
use serde::{Deserialize, Serialize};
use serde_json::{json, Value};
use std::collections::BTreeMap;
use std::path::Path;
use std::sync::Arc;

pub struct C11;

#[derive(Clone, Debug, Serialize, Deserialize)]
pub struct Member {
    /// 0 reference as generated, 2 = permuted + partly reverse-complemented
    pub transform: u8,
    pub perm_seed: u64,
    pub pool: u32,
    pub presentation: Presentation,
    pub faults: BenignFaults,
    /// hard read error at this byte offset of the reference file (compressed bytes for .gz)
    pub read_error_at: Option<u64>,
    pub sched: SchedSpec,
}

#[derive(Clone, Debug, Serialize, Deserialize)]
pub struct GroupSpec {
    pub gen: GenParams,
    pub k: u32,
    pub segment_size: u32,
    pub members: Vec<Member>,
}

type Triple = (Vec<u64>, Vec<u64>, Vec<u64>);

#[derive(Clone, Debug)]
pub struct SplitOut {
    mem: Triple,
    streaming: Result<Triple, String>,
    first: Result<Triple, String>,
    multi: Vec<u64>,
}

fn sorted(s: AHashSet<u64>) -> Vec<u64> {
    let mut v: Vec<u64> = s.into_iter().collect();
    v.sort_unstable();
    v
}

fn triple(t: (AHashSet<u64>, AHashSet<u64>, AHashSet<u64>)) -> Triple {
    (sorted(t.0), sorted(t.1), sorted(t.2))
}

pub fn generate_group(run_seed: u64) -> GroupSpec {
    let mut s = seed::streams(run_seed);
    let mut gen = GenParams::draw(&mut s.workload, &mut s.config);
    // the reference is sample 0; at most a few further samples (they only matter for the
    // first-sample variant, which has to stop at the sample boundary of a PanSN file)
    gen.n_samples = gen.n_samples.min(3);
    // references with repeats, duplicated contigs and tiny contigs more often than the pipeline mix
    let mut c = s.config.fork(0xC11);
    gen.ref_contigs = match c.below(10) {
        0 => 1,
        1..=6 => c.range(2, 8) as u32,
        _ => c.range(9, 24) as u32,
    };
    gen.tiny_pct = *c.pick(&[0u32, 10, 30]);
    gen.max_len = *c.pick(&[40u32, 300, 1200, 3000, 6000, 12000]);
    // one group in 48 has chromosome-sized contigs (own stream): thresholds in the code under
    // test (block sizes, "long contig" fast paths) are far above the usual simulated sizes
    if Rng::new(run_seed ^ 0xB16_C12).below(3000) == 0 {
        // ... and one group in 3000 a reference of more than a million k-mers
        gen.ref_contigs = 2;
        gen.max_len = 1_600_000;
        gen.tiny_pct = 0;
        gen.n_samples = 1;
    } else if Rng::new(run_seed ^ 0xB16_C11).below(48) == 0 {
        gen.ref_contigs = 1 + (run_seed % 2) as u32;
        gen.max_len = 200_000;
        gen.tiny_pct = 0;
    }
    let k = match c.below(10) {
        0..=4 => c.range(3, 12),
        5..=7 => c.range(13, 21),
        8 => c.range(22, 31),
        _ => 32,
    } as u32;
    let segment_size = *c.pick(&[5u32, 20, 50, 120, 400, 1000, 3000]);
    let mut members = Vec::new();
    for i in 0..3u64 {
        let mut r = c.fork(i);
        let faults = if r.pct(40) {
            BenignFaults { short_write_pct: 0, eintr_write_pct: 0, short_read_pct: *r.pick(&[10u8, 50, 90]), eintr_read_pct: *r.pick(&[0u8, 5, 20]), seed: r.next() }
        } else {
            BenignFaults::default()
        };
        let mut cs = r.fork(7);
        let mut ss = s.schedule.fork(i);
        members.push(Member {
            transform: if i == 2 { 2 } else { 0 },
            perm_seed: r.next(),
            pool: match r.below(10) {
                0..=1 => 1,
                2..=6 => r.range(2, 4) as u32,
                _ => r.range(5, 8) as u32,
            },
            presentation: Presentation::draw(&mut r),
            faults,
            read_error_at: None,
            sched: SchedSpec::draw(&mut cs, &mut ss),
        });
    }
    // a tenth of the groups carry a hard read error in member 1
    if c.pct(10) {
        members[1].read_error_at = Some(c.next());
    }
    GroupSpec { gen, k, segment_size, members }
}

/// the reference (sample 0) as member `m` sees it, plus the further samples of the file
fn member_samples(g: &GroupSpec, m: &Member) -> Vec<SampleModel> {
    let w = genome::generate(&g.gen);
    let mut samples = w.samples;
    if m.transform == 2 {
        let mut r = Rng::new(m.perm_seed);
        let cs = &mut samples[0].contigs;
        for i in (1..cs.len()).rev() {
            let j = r.below(i as u64 + 1) as usize;
            cs.swap(i, j);
        }
        for c in cs.iter_mut() {
            if r.pct(50) {
                c.1 = genome::revcomp(&c.1);
            }
        }
    }
    samples
}

struct Prepared {
    k: usize,
    segment_size: usize,
    pool: usize,
    contigs: Vec<Vec<u8>>,
    ref_path: String,
    all_path: String,
}

const REF: &str = "/sim/in/ref.fa";
const ALL: &str = "/sim/in/all.fa";

fn body(p: &Prepared) -> SplitOut {
    rayon::verif::set_pool(p.pool);
    let mem = triple(ragc_core::determine_splitters(&p.contigs, p.k, p.segment_size));
    let streaming = ragc_core::determine_splitters_streaming(Path::new(&p.ref_path), p.k, p.segment_size)
        .map(triple)
        .map_err(|e| format!("{e:#}"));
    let first = ragc_core::determine_splitters_streaming_first_sample(Path::new(&p.all_path), p.k, p.segment_size)
        .map(triple)
        .map_err(|e| format!("{e:#}"));
    let multi = ragc_core::splitters::find_candidate_kmers_multi(&p.contigs, p.k);
    SplitOut { mem, streaming, first, multi }
}

/// Independent model: canonical k-mers (left-aligned 2-bit packing, the smaller of the window and
/// its reverse complement), windows containing a non-ACGT code do not count.
fn model_counts(contigs: &[Vec<u8>], k: usize) -> BTreeMap<u64, u32> {
    let mut all: Vec<u64> = Vec::new();
    for c in contigs {
        if c.len() < k {
            continue;
        }
        for w in c.windows(k) {
            if w.iter().any(|&b| b > 3) {
                continue;
            }
            let mut d: u64 = 0;
            let mut rc: u64 = 0;
            for (i, &b) in w.iter().enumerate() {
                d |= (b as u64) << (62 - 2 * i);
                rc |= (3 - w[k - 1 - i] as u64) << (62 - 2 * i);
            }
            all.push(d.min(rc));
        }
    }
    all.sort_unstable();
    let mut m: BTreeMap<u64, u32> = BTreeMap::new();
    let mut i = 0;
    while i < all.len() {
        let mut j = i + 1;
        while j < all.len() && all[j] == all[i] {
            j += 1;
        }
        m.insert(all[i], (j - i).min(u32::MAX as usize) as u32);
        i = j;
    }
    m
}

struct Executed {
    outcome: Outcome,
    out: Option<SplitOut>,
    contigs: Vec<Vec<u8>>,
    steps: u64,
    preemptions: u64,
    tasks: u32,
    trace_digest: u64,
    choices: Vec<u16>,
    fault_fired: BTreeMap<&'static str, u64>,
    probes: BTreeMap<&'static str, u64>,
    read_error_reachable: bool,
}

fn execute(groups: &[GroupSpec]) -> Vec<Vec<Executed>> {
    let mut jobs = Vec::new();
    let mut meta: Vec<(usize, Vec<Vec<u8>>, bool)> = Vec::new();
    for (gi, g) in groups.iter().enumerate() {
        for m in &g.members {
            let samples = member_samples(g, m);
            let contigs: Vec<Vec<u8>> = samples[0].contigs.iter().map(|c| c.1.clone()).collect();
            let (ref_bytes, gz) = fasta::render_file(&[&samples[0]], &m.presentation);
            let all_refs: Vec<&SampleModel> = if g.gen.pansn { samples.iter().collect() } else { vec![&samples[0]] };
            let (all_bytes, gz2) = fasta::render_file(&all_refs, &m.presentation);
            let ref_path = format!("{REF}{}", if gz { ".gz" } else { "" });
            let all_path = format!("{ALL}{}", if gz2 { ".gz" } else { "" });
            let mut world = World::new();
            world.faults = FaultPlan {
                short_read_pct: m.faults.short_read_pct,
                eintr_read_pct: m.faults.eintr_read_pct,
                rng: m.faults.seed,
                ..Default::default()
            };
            let mut reachable = false;
            if let Some(at) = m.read_error_at {
                // somewhere inside the reference file
                let off = at % (ref_bytes.len().max(1) as u64);
                world.faults.target = ref_path.clone();
                world.faults.read_fail_at_offset = Some(off);
                reachable = !ref_bytes.is_empty();
            }
            world.put_file(&ref_path, ref_bytes);
            world.put_file(&all_path, all_bytes);
            jobs.push(Job {
                spec: Arc::new(Prepared { k: g.k as usize, segment_size: g.segment_size as usize, pool: m.pool as usize, contigs: contigs.clone(), ref_path, all_path }),
                world,
                sched: m.sched.clone(),
            });
            meta.push((gi, contigs, reachable));
        }
    }
    let results = run_batch(jobs, 50_000_000, 1 << 20, body);
    let mut out: Vec<Vec<Executed>> = groups.iter().map(|_| Vec::new()).collect();
    for (res, (gi, contigs, reachable)) in results.into_iter().zip(meta) {
        out[gi].push(Executed {
            outcome: res.outcome,
            out: res.value,
            contigs,
            steps: res.trace.choices.len() as u64,
            preemptions: res.trace.preemptions,
            tasks: res.trace.max_tasks,
            trace_digest: res.trace.digest(),
            choices: res.trace.choices,
            fault_fired: res.world.fault_fired.clone(),
            probes: res.world.probes.clone(),
            read_error_reachable: reachable,
        });
    }
    out
}

fn first_diff(a: &[u64], b: &[u64]) -> String {
    let sa: std::collections::BTreeSet<u64> = a.iter().copied().collect();
    let sb: std::collections::BTreeSet<u64> = b.iter().copied().collect();
    format!("{} vs {} k-mers; {} only in the first (e.g. {:?}), {} only in the second (e.g. {:?})", a.len(), b.len(),
        sa.difference(&sb).count(), sa.difference(&sb).next(), sb.difference(&sa).count(), sb.difference(&sa).next())
}

fn judge(g: &GroupSpec, runs: Vec<Executed>, index: u64, want_sample: bool) -> RunReport {
    let mut r = RunReport::default();
    r.evaluations = runs.len() as u64;
    let mut viol: Option<(String, String)> = None;
    let put = |v: &mut Option<(String, String)>, c: &str, d: String| {
        if v.is_none() {
            *v = Some((c.to_string(), d));
        }
    };
    let mut mix = 0u64;
    let mut any_par = false;
    for (mi, (run, m)) in runs.iter().zip(g.members.iter()).enumerate() {
        r.count("steps_total", run.steps);
        r.max("max_steps_seen", run.steps);
        r.max("max_tasks", run.tasks as u64);
        r.count(&format!("sched.{}", m.sched.name()), 1);
        r.count(&format!("pool.{}", m.pool), 1);
        for (k, v) in &run.fault_fired {
            r.count(&format!("fault.{k}"), *v);
        }
        for (k, v) in &run.probes {
            r.count(&format!("probe.{k}"), *v);
        }
        mix = mix.rotate_left(11) ^ run.trace_digest;
        any_par |= run.tasks >= 2 && run.preemptions >= 1;
        match &run.outcome {
            Outcome::Done => {}
            Outcome::Panic(p) => {
                r.count("panics", 1);
                put(&mut viol, "panic", format!("member {mi}: {p}"));
                continue;
            }
            Outcome::Deadlock(p) | Outcome::MaxSteps(p) => {
                put(&mut viol, "no-termination", format!("member {mi}: {p}"));
                continue;
            }
        }
        let out = run.out.as_ref().expect("done without value");
        let (spl, sing, dup) = &out.mem;
        // the three variants agree (a read error may make a streaming variant fail, never lie)
        match &out.streaming {
            Ok(t) => {
                if t != &out.mem {
                    let what = if t.1 != *sing { ("singletons", first_diff(sing, &t.1)) } else if t.2 != *dup { ("duplicates", first_diff(dup, &t.2)) } else { ("splitters", first_diff(spl, &t.0)) };
                    let class = if m.read_error_at.is_some() { "read-error-swallowed" } else { "variants-differ" };
                    put(&mut viol, class, format!("member {mi}: in-memory and streaming {} differ: {}", what.0, what.1));
                }
                if m.read_error_at.is_some() {
                    r.count("read_error_not_reached_or_ok", 1);
                }
            }
            Err(e) => {
                if m.read_error_at.is_none() {
                    put(&mut viol, "streaming-failed", format!("member {mi}: determine_splitters_streaming failed without an injected error: {e}"));
                } else {
                    r.count("read_error_reported", 1);
                }
            }
        }
        match &out.first {
            Ok(t) => {
                if t != &out.mem {
                    let what = if t.1 != *sing { ("singletons", first_diff(sing, &t.1)) } else if t.2 != *dup { ("duplicates", first_diff(dup, &t.2)) } else { ("splitters", first_diff(spl, &t.0)) };
                    put(&mut viol, "variants-differ", format!("member {mi}: in-memory and first-sample {} differ: {}", what.0, what.1));
                }
            }
            Err(e) => put(&mut viol, "streaming-failed", format!("member {mi}: determine_splitters_streaming_first_sample failed: {e}")),
        }
        if out.multi != *sing {
            put(&mut viol, "variants-differ", format!("member {mi}: find_candidate_kmers_multi and determine_splitters singletons differ: {}", first_diff(&out.multi, sing)));
        }
        // against the model
        let counts = model_counts(&run.contigs, g.k as usize);
        let m_sing: Vec<u64> = counts.iter().filter(|(_, &c)| c == 1).map(|(&k, _)| k).collect();
        let m_dup: Vec<u64> = counts.iter().filter(|(_, &c)| c > 1).map(|(&k, _)| k).collect();
        if *sing != m_sing {
            put(&mut viol, "not-singletons", format!("member {mi}: singleton set vs. canonical k-mers occurring exactly once: {}", first_diff(sing, &m_sing)));
        }
        if *dup != m_dup {
            put(&mut viol, "duplicates-wrong", format!("member {mi}: duplicate set vs. canonical k-mers occurring more than once: {}", first_diff(dup, &m_dup)));
        }
        if let Some(x) = spl.iter().find(|x| sing.binary_search(x).is_err()) {
            put(&mut viol, "not-singletons", format!("member {mi}: splitter {x} is not a singleton of the reference"));
        }
        if let Some(x) = sing.iter().find(|x| dup.binary_search(x).is_ok()) {
            put(&mut viol, "sets-overlap", format!("member {mi}: k-mer {x} is both singleton and duplicate"));
        }
        r.count("splitters_total", spl.len() as u64);
        r.count("singletons_total", sing.len() as u64);
        r.count("duplicates_total", dup.len() as u64);
        if spl.is_empty() {
            r.count("probe.no_splitters", 1);
        }
        // spacing: the reference segmented with its own splitters
        let set: AHashSet<u64> = spl.iter().copied().collect();
        for (ci, c) in run.contigs.iter().enumerate() {
            let segs = ragc_core::split_at_splitters_with_size(c, &set, g.k as usize, g.segment_size as usize);
            r.count("segments_total", segs.len() as u64);
            if segs.len() > 3 {
                r.count("probe.contigs_with_interior_segments", 1);
                for (si, s) in segs.iter().enumerate().take(segs.len() - 2).skip(1) {
                    if s.data.len() < g.segment_size as usize {
                        put(&mut viol, "spacing", format!("member {mi}: contig #{ci} ({} bases) segment {si} of {} has {} bases, segment size is {}", c.len(), segs.len(), s.data.len(), g.segment_size));
                    }
                }
            }
        }
    }
    // across members
    let done: Vec<Option<&SplitOut>> = runs.iter().map(|x| if matches!(x.outcome, Outcome::Done) { x.out.as_ref() } else { None }).collect();
    if let (Some(a), Some(b)) = (done[0], done[1]) {
        r.count("thread_pairs_compared", 1);
        if a.mem != b.mem {
            put(&mut viol, "thread-dependent", format!("the same reference gave different sets under pool {} / {} and another schedule: splitters {}", g.members[0].pool, g.members[1].pool, first_diff(&a.mem.0, &b.mem.0)));
        }
    }
    if let (Some(a), Some(c)) = (done[0], done[2]) {
        r.count("order_strand_pairs_compared", 1);
        if a.mem.1 != c.mem.1 {
            put(&mut viol, "order-or-strand-dependent", format!("singletons change when contigs are permuted / reverse-complemented: {}", first_diff(&a.mem.1, &c.mem.1)));
        }
        if a.mem.2 != c.mem.2 {
            put(&mut viol, "order-or-strand-dependent", format!("duplicates change when contigs are permuted / reverse-complemented: {}", first_diff(&a.mem.2, &c.mem.2)));
        }
    }
    r.digest = mix;
    r.nontrivial = any_par;
    if want_sample {
        r.sample = Some(json!({"index": index, "gen": g.gen, "k": g.k, "segment_size": g.segment_size,
            "members": g.members.iter().map(|m| json!({"pool": m.pool, "sched": m.sched.name(), "gz": m.presentation.gz, "transform": m.transform, "read_error": m.read_error_at.is_some()})).collect::<Vec<_>>()}));
    }
    if let Some((class, detail)) = viol {
        let mut e = g.clone();
        for (m, run) in e.members.iter_mut().zip(runs.iter()) {
            m.sched = SchedSpec { policy: Policy::Replay { choices: run.choices.clone() }, seed: m.sched.seed };
        }
        r.violations.push(Violation {
            property: "C11".into(),
            class,
            detail,
            spec: serde_json::to_value(&e).unwrap(),
            engine: "splitter-sim".into(),
            index,
            event_log_digest: mix,
        });
    }
    r
}

fn run_groups(groups: Vec<GroupSpec>, indices: &[u64]) -> Vec<RunReport> {
    let runs = execute(&groups);
    runs.into_iter().zip(groups.iter().zip(indices)).map(|(ex, (g, &i))| judge(g, ex, i, i < 2)).collect()
}

impl Prop for C11 {
    fn id(&self) -> &'static str { "C11" }
    fn engine(&self) -> &'static str { "splitter-sim" }
    fn level(&self) -> &'static str { "exploration" }
    fn rule(&self) -> &'static str {
        "each evaluation = one simulated execution of determine_splitters (parallel k-mer collection and splitter scan on a simulated rayon pool of 1..8 shuttle tasks under one seeded schedule), determine_splitters_streaming and determine_splitters_streaming_first_sample (reference FASTA on the sim disk: plain/gzip/multi-member, any wrapping, short reads, EINTR; in a tenth of the groups a hard read error) and find_candidate_kmers_multi on one seeded reference (1..24 contigs with repeats, N runs, IUPAC codes, contigs shorter than k; k 3..32; segment size 5..3000). Judged per execution: the variants return identical (splitters, singletons, duplicates); singletons/duplicates equal an independent count of canonical k-mers; splitters are singletons; the sets are disjoint; segmenting the reference with its own splitters leaves no interior segment (all but the first and the last two of a contig) shorter than the segment size; a failed read is an error, never a silently different set. Judged per group of three executions: the same reference under another pool size/schedule/presentation gives the same sets; permuting contigs and reverse-complementing some of them leaves singletons and duplicates unchanged. distinct_nontrivial = distinct schedule-trace digests of groups with >=2 tasks and >=1 preemption."
    }
    fn runs(&self, tier: Tier) -> u64 {
        match tier { Tier::Quick => 16_000, Tier::Thorough => 600_000 }
    }
    fn run_chunk(&self, ctx: &Ctx, indices: &[u64]) -> Vec<RunReport> {
        let groups: Vec<GroupSpec> = indices.iter().map(|&i| generate_group(seed::run_seed(ctx.base_seed ^ 0xC11, i))).collect();
        run_groups(groups, indices)
    }
    fn replay(&self, _ctx: &Ctx, spec: &Value) -> RunReport {
        let g: GroupSpec = serde_json::from_value(spec.clone()).expect("bad C11 spec");
        run_groups(vec![g], &[0]).pop().unwrap()
    }
    fn shrink(&self, spec: &Value) -> Vec<Value> {
        let Ok(g) = serde_json::from_value::<GroupSpec>(spec.clone()) else { return vec![] };
        let mut out: Vec<GroupSpec> = Vec::new();
        let reseed = |g: &mut GroupSpec| {
            for m in g.members.iter_mut() {
                if matches!(m.sched.policy, Policy::Replay { .. }) {
                    m.sched.policy = Policy::Uniform;
                }
            }
        };
        if g.gen.ref_contigs > 1 {
            for n in [1, g.gen.ref_contigs / 2, g.gen.ref_contigs - 1] {
                if n >= 1 && n < g.gen.ref_contigs {
                    let mut s = g.clone();
                    s.gen.ref_contigs = n;
                    reseed(&mut s);
                    out.push(s);
                }
            }
        }
        if g.gen.n_samples > 1 {
            let mut s = g.clone();
            s.gen.n_samples = 1;
            reseed(&mut s);
            out.push(s);
        }
        if g.gen.max_len > 40 {
            let mut s = g.clone();
            s.gen.max_len /= 2;
            reseed(&mut s);
            out.push(s);
        }
        for f in ["tiny_pct", "nrun_pct", "iupac_permille"] {
            let mut s = g.clone();
            let changed = match f {
                "tiny_pct" => std::mem::replace(&mut s.gen.tiny_pct, 0) != 0,
                "nrun_pct" => std::mem::replace(&mut s.gen.nrun_pct, 0) != 0,
                _ => std::mem::replace(&mut s.gen.iupac_permille, 0) != 0,
            };
            if changed {
                reseed(&mut s);
                out.push(s);
            }
        }
        for i in 0..g.members.len() {
            let m = &g.members[i];
            if m.pool > 1 {
                let mut s = g.clone();
                s.members[i].pool = 1;
                reseed(&mut s);
                out.push(s);
            }
            if m.faults != BenignFaults::default() {
                let mut s = g.clone();
                s.members[i].faults = BenignFaults::default();
                out.push(s);
            }
            if m.presentation != Presentation::plain() {
                let mut s = g.clone();
                s.members[i].presentation = Presentation::plain();
                out.push(s);
            }
            if let Policy::Replay { choices } = &m.sched.policy {
                let mut n = choices.len();
                while n > 0 {
                    n /= 2;
                    let mut s = g.clone();
                    s.members[i].sched.policy = Policy::Replay { choices: choices[..n].to_vec() };
                    out.push(s);
                }
            }
        }
        out.into_iter().map(|g| serde_json::to_value(&g).unwrap()).collect()
    }
    fn assumptions(&self) -> Vec<String> {
        vec![
            "the laws that involve no schedule or I/O (subset of singletons, disjointness, spacing) are evaluated as oracles on every simulated outcome; what the simulator itself contributes is the parallel collection under controlled interleavings and pool sizes, and the streaming variants over a faulty read seam".into(),
            "rayon is the harness's shim (shadow/rayon): pool tasks are shuttle tasks, items are claimed from an atomic counter, collects are indexed as in rayon; real rayon's work-stealing deque is not modelled".into(),
            "rdst's radix sort of the k-mer vector keeps the real rayon pool (plain u64 keys)".into(),
            "first-sample variant: PanSN workloads put up to three samples into the file, other workloads only the reference (every header maps to the same sample)".into(),
            "sequentially consistent executions only (shuttle)".into(),
        ]
    }
    fn components_real(&self) -> Vec<&'static str> {
        vec![
            "ragc-core: determine_splitters, determine_splitters_streaming, determine_splitters_streaming_first_sample, find_candidate_kmers_multi, enumerate_kmers, remove_non_singletons, Kmer, split_at_splitters_with_size, GenomeIO (gzip via flate2 MultiGzDecoder)",
            "rdst radix sort",
        ]
    }
    fn components_stub(&self) -> Vec<&'static str> {
        vec![
            "rayon -> /verif/sim/shadow/rayon (shuttle tasks under the harness scheduler)",
            "std::fs::File -> SimFile on the in-memory SimDisk with read faults",
        ]
    }
}
