//! C01 — lossless round trip (engine A), and C05 — the pipeline always terminates.

use super::{Ctx, Prop, Tier};
use crate::engines::pipeline::{self, PipeSpec};
use crate::report::{RunReport, Violation};
use crate::sched::{Policy, SchedSpec};
use crate::seed;
use crate::simrun::Outcome;
use serde_json::{json, Value};

pub struct C01;
pub struct C05;

fn explicit(spec: &PipeSpec, choices: &[u16]) -> Value {
    let mut e = spec.clone();
    e.sched = SchedSpec { policy: Policy::Replay { choices: choices.to_vec() }, seed: spec.sched.seed };
    serde_json::to_value(&e).unwrap()
}

fn spec_summary(spec: &PipeSpec) -> Value {
    json!({"gen": spec.gen, "cfg": spec.cfg, "faults": spec.faults, "sched": spec.sched.name(),
           "presentation0": spec.presentations.first()})
}

/// Judge one pipeline run for property `prop` ("C01" | "C05").
fn judge(prop: &str, spec: &PipeSpec, w: &crate::gen::genome::Workload, run: pipeline::PipeRun, index: u64, want_sample: bool) -> RunReport {
    let mut r = RunReport::default();
    r.evaluations = 1;
    r.nontrivial = run.tasks >= 2 && run.preemptions >= 1;
    r.count("steps_total", run.steps);
    r.max("max_steps_seen", run.steps);
    r.max("max_steps_without_progress_event", run.max_gap);
    r.max("max_tasks", run.tasks as u64);
    r.count(&format!("sched.{}", spec.sched.name()), 1);
    r.count(if spec.api.is_some() { "driver.library_api" } else if spec.cfg.single_file { "mode.single_file" } else { "mode.multi_file" }, 1);
    r.count("sim_time_ms", run.world.clock_ms);
    for (k, v) in &run.world.fault_fired {
        r.count(&format!("fault.{k}"), *v);
    }
    for (k, v) in &run.world.probes {
        r.count(&format!("probe.{k}"), *v);
    }
    let mut viol: Option<(String, String)> = None;
    let total_bases: usize = w.samples.iter().map(|s| s.contigs.iter().map(|c| c.1.len()).sum::<usize>()).sum();
    r.count("input_bases", total_bases as u64);
    r.count("input_samples", w.samples.len() as u64);
    let events_digest = {
        let mut h = 0xcbf29ce484222325u64;
        for e in &run.world.events {
            h = seed::fnv_mix(h, seed::fnv64(e.kind.as_bytes()) ^ e.a ^ e.b.rotate_left(7) ^ ((e.task as u64) << 48));
        }
        h
    };
    r.digest = run.trace_digest ^ events_digest.rotate_left(21);
    match &run.outcome {
        Outcome::Done => {
            match run.create.as_ref().expect("done without value") {
                Ok(()) => {
                    r.count("create_ok", 1);
                    let rounds = pipeline::check_rounds(&run.world.events, spec.cfg.threads);
                    match &rounds {
                        Ok(st) => {
                            r.count("sync_rounds", st.rounds);
                            r.count("probe.producer_blocked_full", st.producer_blocked);
                            r.count("probe.token_pulled_with_contigs_outstanding", st.token_with_contigs_queued);
                            r.count("probe.polling_sleeps", st.sleeps);
                            r.max("max_rounds", st.rounds);
                        }
                        Err((c, d)) => {
                            if prop == "C05" {
                                viol = Some((c.clone(), d.clone()));
                            }
                        }
                    }
                    if prop == "C01" {
                        let (res, world) = pipeline::check_roundtrip(w, run.world);
                        r.count("archive_bytes", world.get_file(pipeline::ARCHIVE_PATH).map(|b| b.len()).unwrap_or(0) as u64);
                        if let Err((c, d)) = res {
                            viol = Some((c, d));
                        } else {
                            r.count("roundtrip_ok", 1);
                        }
                    }
                }
                Err(e) => {
                    r.count("create_err", 1);
                    if want_sample {
                        r.count("create_err_sampled", 1);
                    }
                    let _ = e;
                }
            }
        }
        Outcome::Deadlock(m) => {
            r.count("deadlocks", 1);
            if prop == "C05" {
                viol = Some(("deadlock".into(), stuck_state(&run.world.events, m)));
            }
        }
        Outcome::MaxSteps(m) => {
            r.count("step_budget_exhausted", 1);
            if prop == "C05" {
                viol = Some(("no-progress".into(), stuck_state(&run.world.events, m)));
            }
        }
        Outcome::Panic(m) => {
            r.count("panics", 1);
            // a panic while creating is not a round-trip violation (create did not report
            // success) and not a termination violation; it is reported by C18/C15 style checks.
            if prop == "C05" && m.contains("Worker thread panicked") {
                viol = Some(("worker-panic".into(), m.clone()));
            }
        }
    }
    if want_sample {
        r.sample = Some(json!({"index": index, "spec": spec_summary(spec), "steps": run.steps, "tasks": run.tasks}));
    }
    if let Some((class, detail)) = viol {
        r.violations.push(Violation {
            property: prop.into(),
            class,
            detail,
            spec: explicit(spec, &run.choices),
            engine: "pipeline-sim".into(),
            index,
            event_log_digest: events_digest,
        });
    }
    r
}

/// Describe where everybody is stuck (queue state, who waits on what, barrier arrivals).
fn stuck_state(events: &[ragc_common::verif::Event], msg: &str) -> String {
    let mut len = 0;
    let mut bytes = 0;
    let mut closed = false;
    let mut waiting: std::collections::BTreeMap<u32, String> = Default::default();
    for e in events {
        match e.kind {
            "q_admit" | "q_take" => {
                len = e.b;
                bytes = e.c;
                waiting.remove(&e.task);
            }
            "q_close" => closed = true,
            "q_wait_full" => {
                waiting.insert(e.task, format!("push(size={}) waits not_full", e.a));
            }
            "q_wait_empty" => {
                waiting.insert(e.task, "pull waits not_empty".into());
            }
            "q_wake_full" | "q_wake_empty" => {
                waiting.remove(&e.task);
            }
            "w_bar_arrive" => {
                waiting.insert(e.task, format!("worker {} at barrier {}", e.a, e.b));
            }
            "w_bar_leave" => {
                waiting.remove(&e.task);
            }
            _ => {}
        }
    }
    format!("queue len={len} bytes={bytes} closed={closed}; waiting: {waiting:?}; {msg}")
}

pub fn shrink_pipe_public(spec: &Value) -> Vec<Value> {
    shrink_pipe(spec)
}

fn shrink_pipe(spec: &Value) -> Vec<Value> {
    let Ok(spec) = serde_json::from_value::<PipeSpec>(spec.clone()) else { return vec![] };
    let mut out: Vec<PipeSpec> = Vec::new();
    // a changed workload invalidates an explicit schedule: fall back to a seeded policy and
    // let the candidate prove itself
    let reseed = |s: &mut PipeSpec| {
        if matches!(s.sched.policy, Policy::Replay { .. }) {
            s.sched.policy = Policy::Uniform;
        }
    };
    if spec.gen.n_samples > 1 {
        for n in [1, spec.gen.n_samples / 2, spec.gen.n_samples - 1] {
            if n >= 1 && n < spec.gen.n_samples {
                let mut s = spec.clone();
                s.gen.n_samples = n;
                s.presentations.truncate(if s.cfg.single_file { 1 } else { n as usize });
                reseed(&mut s);
                out.push(s);
            }
        }
    }
    if spec.gen.ref_contigs > 1 {
        let mut s = spec.clone();
        s.gen.ref_contigs -= 1;
        reseed(&mut s);
        out.push(s);
    }
    if spec.gen.max_len > 40 {
        let mut s = spec.clone();
        s.gen.max_len /= 2;
        reseed(&mut s);
        out.push(s);
    }
    if spec.cfg.threads > 1 {
        let mut s = spec.clone();
        s.cfg.threads = if spec.cfg.threads > 2 { 2 } else { 1 };
        reseed(&mut s);
        out.push(s);
    }
    if spec.faults != pipeline::BenignFaults::default() {
        let mut s = spec.clone();
        s.faults = Default::default();
        out.push(s);
    }
    for f in ["snp", "indel", "nrun", "iupac", "rc", "dup", "drop", "extra", "reorder", "tiny"] {
        let mut s = spec.clone();
        let z = match f {
            "snp" => std::mem::replace(&mut s.gen.snp_permille, 0),
            "indel" => std::mem::replace(&mut s.gen.indel_permille, 0),
            "nrun" => std::mem::replace(&mut s.gen.nrun_pct, 0),
            "iupac" => std::mem::replace(&mut s.gen.iupac_permille, 0),
            "rc" => std::mem::replace(&mut s.gen.rc_pct, 0),
            "dup" => std::mem::replace(&mut s.gen.dup_pct, 0),
            "drop" => std::mem::replace(&mut s.gen.drop_pct, 0),
            "extra" => std::mem::replace(&mut s.gen.extra_pct, 0),
            "reorder" => std::mem::replace(&mut s.gen.reorder_pct, 0),
            _ => std::mem::replace(&mut s.gen.tiny_pct, 0),
        };
        if z != 0 {
            reseed(&mut s);
            out.push(s);
        }
    }
    // the library-API driver: drop generated drain/sync calls one at a time
    if let Some(api) = &spec.api {
        for i in 0..api.calls.len() {
            let mut s = spec.clone();
            s.api.as_mut().unwrap().calls.remove(i);
            reseed(&mut s);
            out.push(s);
        }
        if api.adaptive {
            let mut s = spec.clone();
            s.api.as_mut().unwrap().adaptive = false;
            reseed(&mut s);
            out.push(s);
        }
    }
    // configuration back to the plainest value, one knob at a time
    {
        let mut knob = |f: &dyn Fn(&mut PipeSpec) -> bool| {
            let mut s = spec.clone();
            if f(&mut s) {
                reseed(&mut s);
                out.push(s);
            }
        };
        knob(&|s| std::mem::replace(&mut s.cfg.verbosity, 0) != 0);
        knob(&|s| std::mem::replace(&mut s.cfg.bufwriter_cap, 4 << 20) != 4 << 20);
        knob(&|s| std::mem::replace(&mut s.cfg.fallback_frac, 0.0) != 0.0);
        knob(&|s| std::mem::replace(&mut s.cfg.sync_per_sample, false));
        knob(&|s| std::mem::replace(&mut s.cfg.compression_level, 1) != 1);
        knob(&|s| std::mem::replace(&mut s.gen.wild_names, false));
        knob(&|s| std::mem::replace(&mut s.gen.shared_small, false));
        knob(&|s| std::mem::replace(&mut s.gen.name_style, 0) != 0);
        knob(&|s| {
            let plain = crate::gen::fasta::Presentation::plain();
            let changed = s.presentations.iter().any(|p| *p != plain);
            for p in s.presentations.iter_mut() {
                *p = plain.clone();
            }
            changed
        });
    }
    // schedule: first look for a schedule with few preemptions that still fails (long
    // uninterrupted stretches), then cut the explicit prefix
    if !matches!(spec.sched.policy, Policy::Sticky { p: 995 }) {
        for d in 0..3u64 {
            let mut s = spec.clone();
            s.sched = crate::sched::SchedSpec { policy: Policy::Sticky { p: 995 }, seed: spec.sched.seed.wrapping_add(d) };
            out.push(s);
        }
    }
    if let Policy::Replay { choices } = &spec.sched.policy {
        let mut n = choices.len();
        while n > 0 {
            n /= 2;
            let mut s = spec.clone();
            s.sched.policy = Policy::Replay { choices: choices[..n].to_vec() };
            out.push(s);
        }
    }
    out.into_iter().map(|s| serde_json::to_value(&s).unwrap()).collect()
}

fn run_specs(prop: &str, specs: Vec<PipeSpec>, indices: &[u64]) -> Vec<RunReport> {
    let runs = pipeline::execute_batch(&specs);
    runs.into_iter()
        .zip(specs.iter().zip(indices))
        .map(|((w, run), (spec, &i))| judge(prop, spec, &w, run, i, i < 2))
        .collect()
}

pub const REAL: &[&str] = &[
    "ragc-cli create driver (create_archive)",
    "ragc-core: StreamingQueueCompressor, worker threads, MemoryBoundedQueue, splitters, segmentation, LZ-diff, segment compression, GenomeIO/MultiFileIterator, Decompressor",
    "ragc-common: Archive, CollectionV3, varint",
    "zstd, flate2; rdst radix sort of u64 k-mers (uses the real rayon pool internally for large inputs: result is a sorted vector of integers)",
];
pub const STUB: &[&str] = &[
    "std::sync / std::thread -> shuttle under the harness scheduler",
    "std::fs::File -> SimFile on an in-memory SimDisk (prefix-durable, no reordering)",
    "polling sleeps -> logical clock + yield",
    "rayon (par_iter/into_par_iter maps of ragc-core, ThreadPoolBuilder of the CLI) -> /verif/sim/shadow/rayon: pool of 1..8 shuttle tasks claiming items from an atomic counter, indexed collect; the harness scheduler decides who runs which item",
    "metadata zstd level knob = 1 (shipped 18/19) for speed",
];

impl Prop for C01 {
    fn id(&self) -> &'static str { "C01" }
    fn engine(&self) -> &'static str { "pipeline-sim" }
    fn level(&self) -> &'static str { "exploration" }
    fn rule(&self) -> &'static str {
        "each evaluation = one seeded sample set (mutation-derived samples, IUPAC codes, N runs, reverse complements, duplicated/missing/extra/reordered contigs) rendered as FASTA files (random wrapping/case/CRLF/gzip) on the sim disk, compressed by the real create driver with seeded parameters, thread count, queue capacity, buffer size and benign I/O faults under one seeded schedule, then reopened by a fresh reader and compared with the model sample by sample. distinct_nontrivial = distinct (schedule trace, event log) digests among runs with >=2 tasks and >=1 preemption."
    }
    fn runs(&self, tier: Tier) -> u64 {
        match tier { Tier::Quick => 30_000, Tier::Thorough => 1_200_000 }
    }
    fn run_chunk(&self, ctx: &Ctx, indices: &[u64]) -> Vec<RunReport> {
        // every fourth run goes through the library API instead of the CLI driver
        let specs: Vec<PipeSpec> = indices
            .iter()
            .map(|&i| {
                let rs = seed::run_seed(ctx.base_seed ^ 0xC01, i);
                let mut s = if i % 4 == 3 { pipeline::generate_api(rs, 0) } else { pipeline::generate(rs) };
                // thorough tier: a share of runs at the shipped metadata zstd levels (18/19), the
                // default segment compression level and large segment sizes (1-2 s per run)
                if ctx.tier == Tier::Thorough && i % 1500 == 0 {
                    s.cfg.meta_zstd_level = None;
                    s.cfg.compression_level = 17;
                    s.cfg.segment_size = 60_000;
                    s.cfg.k = 31;
                    s.gen.max_len = s.gen.max_len.max(6000);
                }
                // every tier: one run in 3000 (hashed over the workers) is LARGE - contigs of up
                // to half a million bases, segments of 10 000..60 000 - because the cost of a
                // simulated run is its scheduling points, not its bytes (about a second each)
                if (i.wrapping_mul(0x9E37_79B9_7F4A_7C15) >> 33) % 3000 == 0 {
                    let mut r = seed::Rng::new(rs ^ 0xB16);
                    s.gen.n_samples = r.range(2, 4) as u32;
                    s.gen.ref_contigs = r.range(1, 3) as u32;
                    s.gen.max_len = *r.pick(&[120_000u32, 300_000, 500_000]);
                    s.gen.tiny_pct = 0;
                    s.gen.snp_permille = *r.pick(&[1u32, 5, 10]);
                    s.gen.indel_permille = *r.pick(&[0u32, 1]);
                    s.cfg.segment_size = *r.pick(&[10_000u32, 20_000, 60_000]);
                    s.cfg.k = *r.pick(&[15u32, 21, 31]);
                    s.cfg.queue_capacity = "2G".into();
                    let nfiles = if s.cfg.single_file { 1 } else { s.gen.n_samples as usize };
                    s.presentations.truncate(nfiles);
                    while s.presentations.len() < nfiles {
                        s.presentations.push(crate::gen::fasta::Presentation::plain());
                    }
                }
                s
            })
            .collect();
        run_specs("C01", specs, indices)
    }
    fn replay(&self, _ctx: &Ctx, spec: &Value) -> RunReport {
        let spec: PipeSpec = serde_json::from_value(spec.clone()).expect("bad C01 spec");
        run_specs("C01", vec![spec], &[0]).pop().unwrap()
    }
    fn shrink(&self, spec: &Value) -> Vec<Value> { shrink_pipe(spec) }
    fn assumptions(&self) -> Vec<String> {
        vec![
            "nothing is compared when create returns Err (the property is conditional); Err rate is reported".into(),
            "contig names within one sample are generated unique".into(),
            "sequentially consistent executions only (shuttle)".into(),
        ]
    }
    fn components_real(&self) -> Vec<&'static str> { REAL.to_vec() }
    fn components_stub(&self) -> Vec<&'static str> { STUB.to_vec() }
}

impl Prop for C05 {
    fn id(&self) -> &'static str { "C05" }
    fn engine(&self) -> &'static str { "pipeline-sim" }
    fn level(&self) -> &'static str { "exploration" }
    fn rule(&self) -> &'static str {
        "each evaluation = one seeded create run (1..8 workers + producer as shuttle tasks, queue capacities down to just above the largest contig, pack sizes 2..50 so that sync rounds are frequent, multi- and single-file drivers) under one seeded schedule; a run must end with create returned and every worker exited: shuttle's no-runnable-task detection = deadlock, step budget = no progress; the event log of every Ok run is checked for round accounting (tokens per round, barrier order 1..4, admitted = taken, one exit per worker after close). distinct_nontrivial = distinct (schedule trace, event log) digests among runs with >=2 tasks and >=1 preemption."
    }
    fn runs(&self, tier: Tier) -> u64 {
        match tier { Tier::Quick => 40_000, Tier::Thorough => 2_000_000 }
    }
    fn run_chunk(&self, ctx: &Ctx, indices: &[u64]) -> Vec<RunReport> {
        // every third run drives the library API (push / drain / sync_and_flush at generated
        // points / finalize) instead of the CLI driver's fixed call pattern
        let specs: Vec<PipeSpec> = indices
            .iter()
            .map(|&i| {
                let rs = seed::run_seed(ctx.base_seed ^ 0xC05, i);
                let mut s = if i % 3 == 2 { pipeline::generate_api(rs, 12) } else { pipeline::generate_with(rs, 12) };
                // a fifth of the library-API runs also push one or two contigs WITHOUT bases (size 0
                // like a sync token, but a contig): own stream
                if let Some(api) = s.api.as_mut() {
                    let mut re = seed::Rng::new(rs ^ 0xE3B7);
                    if re.pct(20) {
                        let total: u32 = crate::gen::genome::generate(&s.gen).samples.iter().map(|x| x.contigs.len() as u32).sum();
                        api.empty_contigs_before = (0..re.range(1, 2)).map(|_| re.below(total as u64) as u32).collect();
                    }
                }
                // thorough tier: a fifth of the runs with 9..16 workers
                if ctx.tier == Tier::Thorough && i % 5 == 0 {
                    s.cfg.threads = 9 + (rs % 8) as u32;
                }
                s
            })
            .collect();
        run_specs("C05", specs, indices)
    }
    fn replay(&self, _ctx: &Ctx, spec: &Value) -> RunReport {
        let spec: PipeSpec = serde_json::from_value(spec.clone()).expect("bad C05 spec");
        run_specs("C05", vec![spec], &[0]).pop().unwrap()
    }
    fn shrink(&self, spec: &Value) -> Vec<Value> { shrink_pipe(spec) }
    fn assumptions(&self) -> Vec<String> {
        vec![
            "liveness is decided without wall clock: deadlock = no runnable task, livelock = step budget (4M steps; largest run seen is reported)".into(),
            "error paths are not judged: a run in which create already returned Err is only counted".into(),
            "sequentially consistent executions only (shuttle)".into(),
        ]
    }
    fn components_real(&self) -> Vec<&'static str> { REAL.to_vec() }
    fn components_stub(&self) -> Vec<&'static str> { STUB.to_vec() }
}
