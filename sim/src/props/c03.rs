//! C03 — sample and contig catalogue is preserved exactly.
//! Part 2 (storage histories, engine D'): this file. Part 1 (through the pipeline) is judged
//! on the same runs as C01 by the catalogue comparison in the round-trip oracle plus the
//! segment-table comparison against the independent decoder (C02's agcref).

use super::{Ctx, Prop, Tier};
use crate::engines::catalog::{self, CatalogSpec};
use crate::report::{RunReport, Violation};
use crate::seed;
use serde_json::{json, Value};

pub struct C03;

fn report(spec: &CatalogSpec, index: u64, want_sample: bool) -> RunReport {
    let run = catalog::execute(spec);
    let mut r = RunReport::default();
    r.evaluations = 1;
    r.digest = seed::fnv64(serde_json::to_string(&spec.samples).unwrap().as_bytes());
    r.nontrivial = run.names >= 2;
    r.count("metadata_batches", run.batches);
    r.count("descriptors", run.segments);
    r.count("names", run.names);
    r.count("samples", spec.samples.len() as u64);
    r.count(if spec.interleave_seed.is_some() { "registration.interleaved_samples" } else { "registration.sample_by_sample" }, 1);
    if run.batches >= 2 {
        r.count("probe.multi_batch_metadata", 1);
    }
    if run.batches >= 3 {
        r.count("probe.three_batch_metadata", 1);
    }
    for (k, v) in &run.faults {
        r.count(&format!("fault.{k}"), *v);
    }
    if want_sample {
        r.sample = Some(json!({"index": index, "samples": spec.samples.len(),
            "first_sample": spec.samples.first().map(|s| json!({"name": s.0, "contigs": s.1.iter().take(4).collect::<Vec<_>>()}))}));
    }
    if let Some((class, detail)) = run.violation {
        r.violations.push(Violation {
            property: "C03".into(),
            class,
            detail,
            spec: serde_json::to_value(spec).unwrap(),
            engine: "catalog-sim".into(),
            index,
            event_log_digest: r.digest,
        });
    }
    r
}

impl Prop for C03 {
    fn id(&self) -> &'static str { "C03" }
    fn engine(&self) -> &'static str { "catalog-sim" }
    fn level(&self) -> &'static str { "exploration" }
    fn rule(&self) -> &'static str {
        "each evaluation = one seeded catalogue (1..130 samples; adversarial contig names: 1..n space-separated fields, equal/unequal field lengths, runs >100, empty fields, tabs, shared subsets of fields with the previous name; descriptor tables with arbitrary group ids, in-group ids that repeat/go back/are 0/jump, lengths near and far from segment_size+k) registered sample by sample or (35%) interleaved - a sample resumed after contigs of other samples, as when a later input file continues an earlier sample -, stored through Archive on the sim disk in 50-sample batches (benign short reads/writes, EINTR, tiny buffers in 40% of runs), closed, reopened, loaded batch by batch and compared with the table. distinct_nontrivial = distinct catalogue digests with >=2 names."
    }
    fn runs(&self, tier: Tier) -> u64 {
        match tier { Tier::Quick => 400_000, Tier::Thorough => 20_000_000 }
    }
    fn run_chunk(&self, ctx: &Ctx, indices: &[u64]) -> Vec<RunReport> {
        indices.iter().map(|&i| report(&catalog::generate(seed::run_seed(ctx.base_seed ^ 0xC03, i)), i, i < 2)).collect()
    }
    fn replay(&self, _ctx: &Ctx, spec: &Value) -> RunReport {
        let spec: CatalogSpec = serde_json::from_value(spec.clone()).expect("bad C03 spec");
        report(&spec, 0, false)
    }
    fn shrink(&self, spec: &Value) -> Vec<Value> {
        let Ok(spec) = serde_json::from_value::<CatalogSpec>(spec.clone()) else { return vec![] };
        let mut out = Vec::new();
        let n = spec.samples.len();
        if n > 1 {
            for keep in [n / 2, n - 1] {
                let mut s = spec.clone();
                s.samples.truncate(keep.max(1));
                out.push(s);
            }
            let mut s = spec.clone();
            s.samples.remove(0);
            out.push(s);
        }
        for si in 0..n.min(6) {
            if spec.samples[si].1.len() > 1 {
                let mut s = spec.clone();
                s.samples[si].1.pop();
                out.push(s);
                let mut s = spec.clone();
                s.samples[si].1.remove(0);
                out.push(s);
            }
            for ci in 0..spec.samples[si].1.len().min(6) {
                if !spec.samples[si].1[ci].1.is_empty() {
                    let mut s = spec.clone();
                    s.samples[si].1[ci].1.pop();
                    out.push(s);
                }
            }
        }
        if spec.short_rw_pct > 0 || spec.eintr_pct > 0 {
            let mut s = spec.clone();
            s.short_rw_pct = 0;
            s.eintr_pct = 0;
            out.push(s);
        }
        out.into_iter().map(|s| serde_json::to_value(&s).unwrap()).collect()
    }
    fn assumptions(&self) -> Vec<String> {
        vec![
            "batches are stored 50 samples at a time and loaded in order, as create and the reader do".into(),
            "names are printable ASCII without NUL; contig names are unique within a sample".into(),
            "metadata zstd level knob = 1 (the codec under test is upstream of zstd)".into(),
        ]
    }
    fn components_real(&self) -> Vec<&'static str> { vec!["ragc-common::CollectionV3 (register, add_segment_placed, store/load of names and descriptor batches)", "ragc-common::Archive", "zstd"] }
    fn components_stub(&self) -> Vec<&'static str> { vec!["std::fs::File -> SimFile with benign faults", "metadata zstd level knob"] }
}
