//! C03 — sample and contig catalogue is preserved exactly.
//! Part 2 (storage histories, engine D'): this file. Part 1 (through the pipeline) is judged
//! on the same runs as C01 by the catalogue comparison in the round-trip oracle plus the
//! segment-table comparison against the independent decoder (C02's agcref).

use super::{Ctx, Prop, Tier};
use crate::engines::pipeline::{self, PipeSpec};
use crate::simrun::{run_plain, Outcome};
use crate::engines::catalog::{self, CatalogSpec};
use crate::report::{RunReport, Violation};
use crate::seed;
use serde_json::{json, Value};

pub struct C03;

fn report(spec: &CatalogSpec, index: u64, want_sample: bool) -> RunReport {
    let run = catalog::execute(spec);
    let mut r = RunReport::default();
    r.evaluations = 1;
    r.digest = seed::fnv64(serde_json::to_string(&spec.samples).unwrap().as_bytes());
    r.nontrivial = run.names >= 2;
    r.count("metadata_batches", run.batches);
    r.count("descriptors", run.segments);
    r.count("names", run.names);
    r.count("samples", spec.samples.len() as u64);
    r.count(if spec.interleave_seed.is_some() { "registration.interleaved_samples" } else { "registration.sample_by_sample" }, 1);
    if run.batches >= 2 {
        r.count("probe.multi_batch_metadata", 1);
    }
    if run.batches >= 3 {
        r.count("probe.three_batch_metadata", 1);
    }
    for (k, v) in &run.faults {
        r.count(&format!("fault.{k}"), *v);
    }
    if want_sample {
        r.sample = Some(json!({"index": index, "samples": spec.samples.len(),
            "first_sample": spec.samples.first().map(|s| json!({"name": s.0, "contigs": s.1.iter().take(4).collect::<Vec<_>>()}))}));
    }
    if let Some((class, detail)) = run.violation {
        r.violations.push(Violation {
            property: "C03".into(),
            class,
            detail,
            spec: serde_json::to_value(spec).unwrap(),
            engine: "catalog-sim".into(),
            index,
            event_log_digest: r.digest,
        });
    }
    r
}

/// Part 1 inside this check: a simulated create, then the catalogue as the reader's per-sample
/// queries return it - every sample asked in a seeded order on ONE handle (so that lazily loaded
/// metadata batches are reached from any starting point) and every third sample on a fresh handle.
fn pipeline_spec(run_seed: u64) -> PipeSpec {
    let mut s = pipeline::generate(run_seed);
    let mut r = seed::Rng::new(run_seed ^ 0xCA7);
    // sample counts around the pack cardinality and around the 50-sample metadata batch
    s.gen.n_samples = match r.below(6) {
        0 => r.range(1, 4) as u32,
        1 | 2 => r.range(5, 30) as u32,
        3 => r.range(49, 53) as u32,
        4 => r.range(60, 110) as u32,
        _ => s.gen.n_samples,
    };
    s.gen.max_len = if s.gen.n_samples > 20 { 60 } else { s.gen.max_len.min(600) };
    s.gen.ref_contigs = s.gen.ref_contigs.min(4);
    s.cfg.pack_cardinality = *r.pick(&[2u32, 3, 5, 10, 13, 50, 50, 64]);
    let nfiles = if s.cfg.single_file { 1 } else { s.gen.n_samples as usize };
    s.presentations = vec![crate::gen::fasta::Presentation::plain(); nfiles];
    s
}

fn pipeline_report(spec: &PipeSpec, index: u64) -> RunReport {
    let mut r = RunReport::default();
    r.evaluations = 1;
    r.count("pipeline_catalogues", 1);
    let (w, run) = pipeline::execute_batch(std::slice::from_ref(spec)).pop().unwrap();
    r.digest = run.trace_digest;
    r.nontrivial = run.tasks >= 2 && run.preemptions >= 1;
    if !(matches!(run.outcome, Outcome::Done) && matches!(run.create, Some(Ok(())))) {
        r.count("pipeline_create_not_ok", 1);
        return r;
    }
    let bytes = run.world.get_file(pipeline::ARCHIVE_PATH).unwrap_or_default();
    let want: Vec<(String, Vec<String>)> = w.samples.iter().map(|s| (s.name.clone(), s.contigs.iter().map(|c| c.0.trim().to_string()).collect())).collect();
    let lens: Vec<Vec<usize>> = w.samples.iter().map(|s| s.contigs.iter().map(|c| c.1.len()).collect()).collect();
    let k = spec.cfg.k as usize;
    let mut order: Vec<usize> = (0..want.len()).collect();
    let mut rr = seed::Rng::new(seed::fnv64(&bytes) ^ 0x0DD);
    for i in (1..order.len()).rev() {
        let j = rr.below(i as u64 + 1) as usize;
        order.swap(i, j);
    }
    let mut world = ragc_common::verif::World::new();
    world.knobs.bufreader_cap = *rr.pick(&[8192usize, 512, 64]);
    world.put_file(pipeline::ARCHIVE_PATH, bytes);
    let want2 = want.clone();
    let (res, _) = run_plain(world, move || -> Result<(), (String, String)> {
        use ragc_core::{Decompressor, DecompressorConfig};
        let open = || Decompressor::open(pipeline::ARCHIVE_PATH, DecompressorConfig { verbosity: 0 }).map_err(|e| ("pipeline-open-failed".to_string(), format!("{e:#}")));
        let mut d = open()?;
        let listed = d.list_samples();
        let names: Vec<String> = want2.iter().map(|s| s.0.clone()).collect();
        if listed != names {
            return Err(("pipeline-sample-list".into(), format!("listed {} samples, {} were added; first difference at {:?}", listed.len(), names.len(), listed.iter().zip(names.iter()).position(|(a, b)| a != b))));
        }
        for (n, &si) in order.iter().enumerate() {
            let (s, contigs) = &want2[si];
            let got = d.list_contigs(s).map_err(|e| ("pipeline-contig-names".to_string(), format!("list_contigs({s:?}) as query #{n} on one handle: {e:#}")))?;
            if &got != contigs {
                return Err(("pipeline-contig-names".into(), format!("list_contigs({s:?}) as query #{n} on one handle returned {} names {:?}.., {} were added {:?}..", got.len(), got.first(), contigs.len(), contigs.first())));
            }
            // the descriptor table read back by name describes THIS contig: first length plus the
            // later lengths minus k is the number of bases that was added under that name
            for (ci, c) in contigs.iter().enumerate() {
                let segs = d.get_contig_segments_desc(s, c).map_err(|e| ("pipeline-descriptor".to_string(), format!("get_contig_segments_desc({s:?}, {c:?}): {e:#}")))?;
                let described: usize = segs.iter().enumerate().map(|(i, x)| if i == 0 { x.raw_length as usize } else { (x.raw_length as usize).saturating_sub(k) }).sum();
                if described != lens[si][ci] {
                    return Err(("pipeline-descriptor".into(), format!("the descriptor table read back for {s:?}/{c:?} describes {described} bases in {} segments, {} bases were added under that name", segs.len(), lens[si][ci])));
                }
            }
            if n % 3 == 0 {
                let mut f = open()?;
                let got = f.list_contigs(s).map_err(|e| ("pipeline-contig-names".to_string(), format!("list_contigs({s:?}) on a fresh handle: {e:#}")))?;
                if &got != contigs {
                    return Err(("pipeline-contig-names".into(), format!("list_contigs({s:?}) on a fresh handle returned {} names {:?}.., {} were added {:?}..", got.len(), got.first(), contigs.len(), contigs.first())));
                }
            }
        }
        Ok(())
    });
    let viol = match res {
        Ok(Ok(())) => None,
        Ok(Err(v)) => Some(v),
        Err(p) => Some(("panic".to_string(), format!("catalogue queries after a simulated create panicked: {p}"))),
    };
    r.count("pipeline_samples", want.len() as u64);
    if want.len() > 50 {
        r.count("probe.pipeline_multi_batch_metadata", 1);
    }
    if want.len() as u32 > spec.cfg.pack_cardinality {
        r.count("probe.more_samples_than_pack_cardinality", 1);
    }
    if let Some((class, detail)) = viol {
        let mut e = spec.clone();
        e.sched = crate::sched::SchedSpec { policy: crate::sched::Policy::Replay { choices: run.choices.clone() }, seed: spec.sched.seed };
        r.violations.push(Violation {
            property: "C03".into(),
            class,
            detail,
            spec: serde_json::json!({"pipeline": e}),
            engine: "pipeline-sim (catalogue)".into(),
            index,
            event_log_digest: r.digest,
        });
    }
    r
}

/// one run index in 96 is a pipeline catalogue run
fn is_pipeline(index: u64) -> bool {
    // hashed, so that these (expensive) runs spread evenly over the worker processes
    (index.wrapping_mul(0x9E37_79B9_7F4A_7C15) >> 33) % 96 == 0
}

impl Prop for C03 {
    fn id(&self) -> &'static str { "C03" }
    fn engine(&self) -> &'static str { "catalog-sim" }
    fn level(&self) -> &'static str { "exploration" }
    fn rule(&self) -> &'static str {
        "each evaluation = one seeded catalogue (1..130 samples; adversarial contig names: 1..n space-separated fields, equal/unequal field lengths, runs >100, empty fields, tabs, shared subsets of fields with the previous name; descriptor tables with arbitrary group ids, in-group ids that repeat/go back/are 0/jump, lengths near and far from segment_size+k) registered sample by sample or (35%) interleaved - a sample resumed after contigs of other samples, as when a later input file continues an earlier sample -, stored through Archive on the sim disk in 50-sample batches (benign short reads/writes, EINTR, tiny buffers in 40% of runs), closed, reopened, loaded batch by batch and compared with the table; one evaluation in 96 is instead a simulated create (1..110 samples, pack cardinality 2..64) followed by list_samples and per-sample list_contigs in a seeded order on one handle and on fresh handles, compared with what was added. distinct_nontrivial = distinct catalogue digests with >=2 names."
    }
    fn runs(&self, tier: Tier) -> u64 {
        match tier { Tier::Quick => 400_000, Tier::Thorough => 20_000_000 }
    }
    fn run_chunk(&self, ctx: &Ctx, indices: &[u64]) -> Vec<RunReport> {
        indices
            .iter()
            .map(|&i| {
                let rs = seed::run_seed(ctx.base_seed ^ 0xC03, i);
                if is_pipeline(i) { pipeline_report(&pipeline_spec(rs), i) } else { report(&catalog::generate(rs), i, i < 2) }
            })
            .collect()
    }
    fn replay(&self, _ctx: &Ctx, spec: &Value) -> RunReport {
        if let Some(p) = spec.get("pipeline") {
            let p: PipeSpec = serde_json::from_value(p.clone()).expect("bad C03 pipeline spec");
            return pipeline_report(&p, 0);
        }
        let spec: CatalogSpec = serde_json::from_value(spec.clone()).expect("bad C03 spec");
        report(&spec, 0, false)
    }
    fn shrink(&self, spec: &Value) -> Vec<Value> {
        if let Some(p) = spec.get("pipeline") {
            return super::c01::shrink_pipe_public(p).into_iter().map(|v| serde_json::json!({"pipeline": v})).collect();
        }
        let Ok(spec) = serde_json::from_value::<CatalogSpec>(spec.clone()) else { return vec![] };
        let mut out = Vec::new();
        let n = spec.samples.len();
        if n > 1 {
            for keep in [n / 2, n - 1] {
                let mut s = spec.clone();
                s.samples.truncate(keep.max(1));
                out.push(s);
            }
            let mut s = spec.clone();
            s.samples.remove(0);
            out.push(s);
        }
        for si in 0..n.min(6) {
            if spec.samples[si].1.len() > 1 {
                let mut s = spec.clone();
                s.samples[si].1.pop();
                out.push(s);
                let mut s = spec.clone();
                s.samples[si].1.remove(0);
                out.push(s);
            }
            for ci in 0..spec.samples[si].1.len().min(6) {
                if !spec.samples[si].1[ci].1.is_empty() {
                    let mut s = spec.clone();
                    s.samples[si].1[ci].1.pop();
                    out.push(s);
                }
            }
        }
        if spec.short_rw_pct > 0 || spec.eintr_pct > 0 {
            let mut s = spec.clone();
            s.short_rw_pct = 0;
            s.eintr_pct = 0;
            out.push(s);
        }
        out.into_iter().map(|s| serde_json::to_value(&s).unwrap()).collect()
    }
    fn assumptions(&self) -> Vec<String> {
        vec![
            "batches are stored 50 samples at a time and loaded in order, as create and the reader do".into(),
            "names are printable ASCII without NUL; contig names are unique within a sample".into(),
            "metadata zstd level knob = 1 (the codec under test is upstream of zstd)".into(),
        ]
    }
    fn components_real(&self) -> Vec<&'static str> { vec!["ragc-common::CollectionV3 (register, add_segment_placed, store/load of names and descriptor batches)", "ragc-common::Archive", "zstd"] }
    fn components_stub(&self) -> Vec<&'static str> { vec!["std::fs::File -> SimFile with benign faults", "metadata zstd level knob"] }
}
