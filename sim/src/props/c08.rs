//! C08 — reader answers do not depend on query history or on other readers (engine C).

use super::{Ctx, Prop, Tier};
use crate::engines::pipeline::{self, PipeSpec};
use crate::engines::reader::{self, Ans, ConcSpec, Q};
use crate::report::{RunReport, Violation};
use crate::seed::{self, Rng};
use crate::simrun::Outcome;
use serde::{Deserialize, Serialize};
use serde_json::{json, Value};
use std::sync::Arc;

pub struct C08;

/// Archive shapes: 1, a few, 51+ and 101+ samples (1, 2, 3 metadata batches).
pub fn source_spec(run_seed: u64, index: u64) -> PipeSpec {
    let mut s = super::c14::small_spec(run_seed);
    let mut r = Rng::new(run_seed ^ 0x808);
    s.gen.n_samples = match index % 4 {
        0 => 1,
        1 => r.range(2, 6) as u32,
        2 => r.range(51, 54) as u32,
        _ => r.range(101, 104) as u32,
    };
    s.gen.max_len = if s.gen.n_samples > 10 { 60 } else { *r.pick(&[120u32, 400]) };
    s.gen.ref_contigs = r.range(1, 3) as u32;
    s.gen.drop_pct = 0;
    s.cfg.segment_size = *r.pick(&[50u32, 80]);
    s.cfg.k = r.range(9, 12) as u32;
    if s.cfg.single_file && !s.gen.pansn {
        s.cfg.single_file = false;
    }
    // one archive in 17 has MANY groups (> 1024 reference segments): per-handle caches and tables
    // that are sized, bounded or evicted only show their edges there
    if index % 17 == 13 {
        s.gen.n_samples = r.range(2, 3) as u32;
        s.gen.ref_contigs = 3;
        s.gen.max_len = 44_000;
        s.gen.tiny_pct = 0;
        s.gen.shared_small = false;
        s.gen.dup_pct = 0;
        s.gen.extra_pct = 0;
        s.gen.snp_permille = *r.pick(&[1u32, 5]);
        s.gen.indel_permille = 0;
        s.cfg.segment_size = 50;
        s.cfg.k = r.range(10, 12) as u32;
        s.cfg.queue_capacity = "2G".into();
        s.cfg.fallback_frac = 0.0;
    }
    let nfiles = if s.cfg.single_file { 1 } else { s.gen.n_samples as usize };
    s.presentations = vec![crate::gen::fasta::Presentation::plain(); nfiles];
    s
}

#[derive(Serialize, Deserialize)]
struct ReplaySpec {
    source: PipeSpec,
    /// single-handle history (indices into the alphabet), if that is what failed
    history: Option<Vec<usize>>,
    conc: Option<ConcSpec>,
    faults: Option<(u8, u8, u64)>,
    /// transient read error: (position in the history, n-th read call of that query)
    #[serde(default)]
    eio: Option<(usize, u64)>,
    /// capacity of the archive reader's BufReader for this history (None = derived from the history)
    #[serde(default)]
    bufcap: Option<usize>,
    /// a `ragc inspect` invocation (options of the command)
    #[serde(default)]
    inspect: Option<InspectSpec>,
}

#[derive(Clone, Debug, Serialize, Deserialize)]
pub struct InspectSpec {
    verbosity: u32,
    show_groups: bool,
    show_segments: bool,
    group_id: Option<u32>,
    sample: Option<String>,
    contig: Option<String>,
    index: Option<usize>,
    single_groups: bool,
    segment_layout: bool,
    pack_layout: bool,
    compression: bool,
}

fn explore(source: PipeSpec, only: Option<ReplaySpec>, index: u64, tier: Tier, want_sample: bool) -> RunReport {
    let mut r = RunReport::default();
    let (_, run) = pipeline::execute_batch(std::slice::from_ref(&source)).pop().unwrap();
    let ok = matches!(run.outcome, Outcome::Done) && matches!(run.create, Some(Ok(())));
    if !ok {
        r.evaluations = 1;
        r.count("source_create_failed", 1);
        return r;
    }
    let bytes = Arc::new(run.world.get_file(pipeline::ARCHIVE_PATH).unwrap_or_default());
    let arch_id = seed::fnv64(&bytes);
    let only_bufcap = only.as_ref().and_then(|o| o.bufcap);
    let mk_eio = |class: &str, detail: String, history: Option<Vec<usize>>, conc: Option<ConcSpec>, faults: Option<(u8, u8, u64)>, eio: Option<(usize, u64)>, bufcap: Option<usize>| Violation {
        property: "C08".into(),
        class: class.into(),
        detail,
        spec: serde_json::to_value(&ReplaySpec { source: source.clone(), history, conc, faults, eio, bufcap, inspect: None }).unwrap(),
        engine: "reader-sim".into(),
        index,
        event_log_digest: arch_id,
    };
    let mk = |class: &str, detail: String, history: Option<Vec<usize>>, conc: Option<ConcSpec>, faults: Option<(u8, u8, u64)>| mk_eio(class, detail, history, conc, faults, None, None);
    let qs = match reader::alphabet(&bytes) {
        Ok(q) => q,
        Err(e) => {
            r.evaluations = 1;
            if e.contains("panic") {
                r.violations.push(mk("panic", format!("fresh handles asked one question each: {e}"), None, None, None));
            } else {
                r.count("alphabet_failed", 1);
            }
            return r;
        }
    };
    let fresh = reader::fresh_answers(&bytes, &qs);
    for (q, f) in qs.iter().zip(fresh.iter()) {
        if let Err(p) = f {
            r.violations.push(mk("panic", format!("{q:?} on a fresh handle panicked: {p}"), Some(vec![]), None, None));
            return r;
        }
    }
    r.count("archives", 1);
    r.count(&format!("shape.samples_{}", match source.gen.n_samples { 1 => "1", 2..=50 => "2-50", 51..=100 => "51-100", _ => "101+" }), 1);
    let n = qs.len();
    let big = source.gen.max_len >= 20_000;
    if big {
        r.count("shape.many_groups", 1);
    }
    let mut first: Option<Violation> = None;
    let mut classes_seen = std::collections::BTreeSet::new();
    let mut judge_hist = |h: &[usize], faults: Option<(u8, u8, u64)>, r: &mut RunReport, first: &mut Option<Violation>| {
        let mut d = arch_id;
        for &x in h {
            d = seed::fnv_mix(d, x as u64 + 1);
        }
        let bufcap = only_bufcap.unwrap_or([8192usize, 8192, 512, 64, 7][(seed::fnv_mix(d, 0xB0F) % 5) as usize]);
        let res = reader::run_history_eio(&bytes, &qs, &fresh, h, faults, None, bufcap);
        r.evaluations += 1;
        r.count(&format!("bufreader_cap.{bufcap}"), 1);
        r.extra_digests.push(d);
        if let Some((_, class, detail)) = res.bad {
            r.count(&format!("bad.{class}"), 1);
            // keep the first violation of each class (shortest histories come first)
            if classes_seen.insert(class.clone()) && first.is_none() {
                *first = Some(mk_eio(&class, detail, Some(h.to_vec()), None, faults, None, Some(bufcap)));
            }
        }
    };
    // histories in which one query meets a transient read error (EIO once, then healthy again)
    let judge_eio = |h: &[usize], eio: (usize, u64), r: &mut RunReport, first: &mut Option<Violation>| {
        let mut d = arch_id ^ 0xE10 ^ (eio.0 as u64) << 40 ^ eio.1 << 48;
        for &x in h {
            d = seed::fnv_mix(d, x as u64 + 1);
        }
        // small reader buffers: the handle has to go back to the file for almost every part
        let bufcap = only_bufcap.unwrap_or([8192usize, 512, 64, 7, 1][(seed::fnv_mix(d, 0xB0F) % 5) as usize]);
        let res = reader::run_history_eio(&bytes, &qs, &fresh, h, None, Some(eio), bufcap);
        r.evaluations += 1;
        r.count(&format!("bufreader_cap.{bufcap}"), 1);
        r.extra_digests.push(d);
        r.count("transient_read_error_histories", 1);
        if res.eio_fired {
            r.count("fault.eio_read_call", 1);
        }
        if let Some((_, class, detail)) = res.bad {
            let class = if class == "history-dependent-answer" { "answer-after-read-error".to_string() } else { class };
            r.count(&format!("bad.{class}"), 1);
            if first.is_none() {
                *first = Some(mk_eio(&class, format!("[read call {} of query #{} failed once with EIO] {detail}", eio.1, eio.0), Some(h.to_vec()), None, None, Some(eio), Some(bufcap)));
            }
        }
    };
    if let Some(o) = &only {
        if let Some(h) = &o.history {
            match o.eio {
                Some(e) => judge_eio(h, e, &mut r, &mut first),
                None => judge_hist(h, o.faults, &mut r, &mut first),
            }
        }
    } else {
        // all histories of length 1..=L
        let l = 3;
        for a in 0..n {
            judge_hist(&[a], None, &mut r, &mut first);
        }
        for a in 0..n {
            for b in 0..n {
                judge_hist(&[a, b], None, &mut r, &mut first);
            }
        }
        if l >= 3 && !big {
            for a in 0..n {
                for b in 0..n {
                    for c in 0..n {
                        judge_hist(&[a, b, c], None, &mut r, &mut first);
                    }
                }
            }
        }
        r.count(if big { "histories_len_le2_exhaustive" } else { "histories_len_le3_exhaustive" }, 1);
        // sampled longer histories, half of them under benign read faults
        let mut rr = Rng::new(arch_id ^ 0x77);
        let (n4, nlong) = if big { (40, 8) } else if tier == Tier::Quick { (300, 60) } else { (6000, 600) };
        for _ in 0..n4 {
            let h: Vec<usize> = (0..4).map(|_| rr.below(n as u64) as usize).collect();
            judge_hist(&h, None, &mut r, &mut first);
        }
        for i in 0..nlong {
            let len = rr.range(5, 40) as usize;
            let h: Vec<usize> = (0..len).map(|_| rr.below(n as u64) as usize).collect();
            let faults = if i % 2 == 0 { Some((40u8, 10u8, rr.next())) } else { None };
            judge_hist(&h, faults, &mut r, &mut first);
        }
        // every pair (a, b): a meets a transient read error at its n-th read call, b follows on the
        // same handle; plus sampled longer histories with the error at a random position
        let mut re = Rng::new(arch_id ^ 0xE10);
        for a in 0..n {
            for b in 0..n {
                let nth = *re.pick(&[0u64, 0, 1, 1, 2, 3, 5, 8]);
                judge_eio(&[a, b], (0, nth), &mut r, &mut first);
            }
        }
        for _ in 0..if big { 30 } else if tier == Tier::Quick { 300 } else { 6000 } {
            let len = re.range(3, 6) as usize;
            let h: Vec<usize> = (0..len).map(|_| re.below(n as u64) as usize).collect();
            let at = re.below(len as u64 - 1) as usize;
            let nth = re.below(12);
            judge_eio(&h, (at, nth), &mut r, &mut first);
        }
    }
    // concurrent cloned readers
    let concs: Vec<ConcSpec> = match &only {
        Some(o) => o.conc.iter().cloned().collect(),
        None => {
            let mut rr = Rng::new(arch_id ^ 0x99);
            let mut cfg = Rng::new(arch_id ^ 0x55);
            (0..if tier == Tier::Quick { 40 } else { 400 }).map(|_| reader::gen_conc(&mut rr, &mut cfg, n)).collect()
        }
    };
    if !concs.is_empty() {
        let results = reader::run_concurrent(&bytes, &qs, &concs);
        for (res, spec) in results.iter().zip(concs.iter()) {
            r.evaluations += 1;
            r.count("concurrent_runs", 1);
            r.count("steps_total", res.steps);
            r.count("preemptions", res.preemptions);
            r.extra_digests.push(res.trace_digest ^ arch_id);
            let mut explicit = spec.clone();
            explicit.sched.policy = crate::sched::Policy::Replay { choices: res.choices.clone() };
            match &res.outcome {
                Outcome::Done => {
                    // every task's answers on its own handle: compare with the single-threaded
                    // answers of the same script on a fresh handle (so that only interference
                    // between handles is judged here)
                    for (t, (sc, got)) in spec.scripts.iter().zip(res.answers.iter()).enumerate() {
                        let h: Vec<usize> = sc.iter().map(|&i| i as usize).collect();
                        let mut world = ragc_common::verif::World::new();
                        world.put_file(reader::PATH, bytes.as_ref().clone());
                        let qs2 = qs.clone();
                        let h2 = h.clone();
                        let (alone, _) = crate::simrun::run_plain(world, move || {
                            let mut d = ragc_core::Decompressor::open(reader::PATH, ragc_core::DecompressorConfig { verbosity: 0 }).expect("open");
                            h2.iter().map(|&i| reader::ask(&mut d, &qs2[i])).collect::<Vec<Ans>>()
                        });
                        if let Ok(alone) = alone {
                            if &alone != got && first.is_none() {
                                first = Some(mk("reader-interference", format!("task {t} running {:?} concurrently with {} other cloned readers got {:?}, alone it gets {:?}", h.iter().map(|&i| &qs[i]).collect::<Vec<_>>(), spec.scripts.len() - 1, got, alone), None, Some(explicit.clone()), None));
                            }
                        }
                    }
                }
                Outcome::Panic(p) => {
                    r.count("concurrent_panics", 1);
                    // a panic that the same script also produces single-threaded is a history
                    // defect (reported above); only report here if nothing else was found
                    if first.is_none() {
                        first = Some(mk("panic", format!("concurrent cloned readers panicked: {p}"), None, Some(explicit), None));
                    }
                }
                Outcome::Deadlock(m) | Outcome::MaxSteps(m) => {
                    if first.is_none() {
                        first = Some(mk("reader-stuck", m.clone(), None, Some(explicit), None));
                    }
                }
            }
        }
    }
    // `ragc inspect` (its own sequence of queries on one handle, incl. the per-sample query followed
    // by a full-table query of the property's example): any option combination on a valid archive
    // may fail with an error value, never crash
    if only.is_none() || only.as_ref().map(|o| o.inspect.is_some()).unwrap_or(false) {
        let mut ri = Rng::new(arch_id ^ 0x1A5);
        let sample_names: Vec<String> = qs.iter().filter_map(|q| if let Q::GetSample(s) = q { Some(s.clone()) } else { None }).collect();
        let contig_names: Vec<String> = qs.iter().filter_map(|q| if let Q::GetContig(_, c) = q { Some(c.clone()) } else { None }).collect();
        let configs: Vec<InspectSpec> = match &only {
            Some(o) => o.inspect.iter().cloned().collect(),
            None => (0..if tier == Tier::Quick { 40 } else { 400 })
                .map(|_| InspectSpec {
                    verbosity: ri.below(3) as u32,
                    show_groups: ri.pct(70),
                    show_segments: ri.pct(50),
                    group_id: match ri.below(4) { 0 => Some(ri.below(40) as u32), 1 => Some(999_999), _ => None },
                    sample: if ri.pct(50) { Some(sample_names[ri.below(sample_names.len() as u64) as usize].clone()) } else { None },
                    contig: if ri.pct(40) { Some(contig_names[ri.below(contig_names.len() as u64) as usize].clone()) } else { None },
                    index: match ri.below(4) { 0 => Some(ri.below(4) as usize), 1 => Some(10_000), _ => None },
                    single_groups: ri.pct(10),
                    segment_layout: ri.pct(10),
                    pack_layout: ri.pct(10),
                    compression: ri.pct(10),
                })
                .collect(),
        };
        for c in configs {
            let mut world = ragc_common::verif::World::new();
            world.put_file(reader::PATH, bytes.as_ref().clone());
            let c2 = c.clone();
            let (res, world) = crate::simrun::run_plain(world, move || {
                use crate::ragc_cli::verif_cli as cli;
                cli::inspect(std::path::PathBuf::from(reader::PATH), cli::InspectConfig {
                    verbosity: c2.verbosity,
                    show_groups: c2.show_groups,
                    show_segments: c2.show_segments,
                    group_id_filter: c2.group_id,
                    sample_filter: c2.sample,
                    contig_filter: c2.contig,
                    segment_index: c2.index,
                    show_single_segment_groups: c2.single_groups,
                    show_segment_layout: c2.segment_layout,
                    show_pack_layout: c2.pack_layout,
                    show_compression: c2.compression,
                    compare_with: None,
                })
                .is_ok()
            });
            r.evaluations += 1;
            r.count("inspect_runs", 1);
            r.count("inspect_stdout_bytes", world.get_file(ragc_common::verif::STDOUT_PATH).map(|b| b.len()).unwrap_or(0) as u64);
            match res {
                Ok(true) => r.count("inspect_ok", 1),
                Ok(false) => r.count("inspect_err_value", 1),
                Err(p) => {
                    r.count("bad.inspect-panic", 1);
                    if first.is_none() {
                        let mut v = mk("panic", format!("ragc inspect {c:?} crashed on a valid archive: {p}"), None, None, None);
                        v.spec["inspect"] = serde_json::to_value(&c).unwrap();
                        first = Some(v);
                    }
                }
            }
        }
    }
    if want_sample {
        r.sample = Some(json!({"index": index, "samples_in_archive": source.gen.n_samples, "alphabet": qs,
            "example_history": [qs.get(4), qs.get(6), qs.get(17)]}));
    }
    if let Some(v) = first {
        r.violations.push(v);
    }
    r
}

impl Prop for C08 {
    fn id(&self) -> &'static str { "C08" }
    fn engine(&self) -> &'static str { "reader-sim" }
    fn level(&self) -> &'static str { "exploration" }
    fn rule(&self) -> &'static str {
        "per sampled archive (1, 2-6, 51+ and 101+ samples = 1, 2, 3 metadata batches) ALL query histories of length <= 3 over an alphabet of ~24 question instances (11 reader operations x existing first/last-batch, unknown names, LZ/raw/unknown groups) are run on one fresh handle each, plus sampled length-4 and random histories up to length 40 (half under short reads/EINTR), plus 2-4 shuttle tasks each owning a clone_for_thread handle with SimFile reads as scheduling points; every answer must equal the answer of a fresh handle asked only that question (errors compare as 'is error'); a panic is a violation. distinct_nontrivial = distinct (archive, history) and (archive, schedule trace) digests."
    }
    fn runs(&self, tier: Tier) -> u64 {
        match tier { Tier::Quick => 64, Tier::Thorough => 1_000 }
    }
    fn run_chunk(&self, ctx: &Ctx, indices: &[u64]) -> Vec<RunReport> {
        indices.iter().map(|&i| explore(source_spec(seed::run_seed(ctx.base_seed ^ 0xC08, i), i), None, i, ctx.tier, i < 2)).collect()
    }
    fn replay(&self, ctx: &Ctx, spec: &Value) -> RunReport {
        let rs: ReplaySpec = serde_json::from_value(spec.clone()).expect("bad C08 spec");
        let source = rs.source.clone();
        explore(source, Some(rs), 0, ctx.tier, false)
    }
    fn shrink(&self, spec: &Value) -> Vec<Value> {
        let Ok(rs) = serde_json::from_value::<ReplaySpec>(spec.clone()) else { return vec![] };
        let mut out = Vec::new();
        if let Some(h) = &rs.history {
            for i in 0..h.len() {
                let mut h2 = h.clone();
                h2.remove(i);
                // removing a query in front of the faulted one shifts its position
                let eio = rs.eio.and_then(|(at, nth)| if i < at { Some((at - 1, nth)) } else if i == at { None } else { Some((at, nth)) });
                if rs.eio.is_some() && eio.is_none() {
                    continue;
                }
                out.push(ReplaySpec { source: rs.source.clone(), history: Some(h2), conc: None, faults: rs.faults, eio, bufcap: rs.bufcap, inspect: None });
            }
            if rs.faults.is_some() {
                out.push(ReplaySpec { source: rs.source.clone(), history: Some(h.clone()), conc: None, faults: None, eio: rs.eio, bufcap: rs.bufcap, inspect: None });
            }
        }
        out.into_iter().map(|s| serde_json::to_value(&s).unwrap()).collect()
    }
    fn assumptions(&self) -> Vec<String> {
        vec![
            "errors compare as 'is error', messages are not compared".into(),
            "archives are sampled; histories up to length 3 are enumerated completely per archive".into(),
        ]
    }
    fn components_real(&self) -> Vec<&'static str> { vec!["ragc-core::Decompressor (all public query methods, clone_for_thread)", "ragc-common::CollectionV3 lazy batch loading, Archive reader", "source archives: full create pipeline"] }
    fn components_stub(&self) -> Vec<&'static str> { vec!["std::fs::File -> SimFile (reads are scheduling points; short reads/EINTR)", "caller threads -> shuttle tasks"] }
}
