//! C14 — a partially written archive is rejected cleanly (crash-point enumeration).

use super::{Ctx, Prop, Tier};
use crate::engines::crash::{self, Verdict};
use crate::engines::pipeline::{self, PipeSpec};
use crate::gen::genome::GenParams;
use crate::report::{RunReport, Violation};
use crate::sched::{Policy, SchedSpec};
use crate::seed::{self, Rng};
use crate::simrun::Outcome;
use serde::{Deserialize, Serialize};
use serde_json::{json, Value};

pub struct C14;

/// Small workloads (archives of ~0.3-20 KiB), a share of them with >50 samples so that the
/// metadata spans several batches.
pub fn small_spec(run_seed: u64) -> PipeSpec {
    let mut s = seed::streams(run_seed);
    let mut gen = GenParams::draw(&mut s.workload, &mut s.config);
    let r = &mut s.config;
    gen.n_samples = match r.below(10) {
        0..=5 => r.range(1, 4) as u32,
        6..=8 => r.range(5, 12) as u32,
        _ => r.range(51, 56) as u32,
    };
    gen.max_len = if gen.n_samples > 12 { 60 } else { *r.pick(&[60u32, 200, 600]) };
    gen.ref_contigs = r.range(1, 3) as u32;
    let mut cfg = pipeline::draw_cfg(r, &gen, false);
    cfg.threads = r.range(1, 2) as u32;
    cfg.compression_level = 1;
    cfg.bufwriter_cap = 4 << 20;
    let nfiles = if cfg.single_file { 1 } else { gen.n_samples as usize };
    let presentations = vec![crate::gen::fasta::Presentation::plain(); nfiles];
    PipeSpec {
        gen,
        cfg,
        faults: Default::default(),
        presentations,
        sched: SchedSpec { policy: Policy::Sticky { p: 950 }, seed: s.schedule.next() },
        hard: None,
        api: None,
    }
}

/// Large archives with a small directory (few, long segments): only when the archive is longer
/// than 256 x its directory do truncations near the end carry a "directory length" that passes
/// the range check, so that the directory parser runs over arbitrary payload bytes.
pub fn big_spec(run_seed: u64) -> PipeSpec {
    let mut s = small_spec(run_seed);
    let mut r = Rng::new(run_seed ^ 0xB16);
    s.gen.n_samples = r.range(1, 2) as u32;
    s.gen.ref_contigs = r.range(2, 5) as u32;
    s.gen.max_len = *r.pick(&[40_000u32, 80_000, 120_000]);
    s.gen.tiny_pct = 0;
    s.gen.shared_small = false;
    s.gen.dup_pct = 0;
    s.gen.extra_pct = 0;
    s.gen.snp_permille = *r.pick(&[1u32, 10]);
    s.gen.indel_permille = 0;
    s.cfg.segment_size = *r.pick(&[20_000u32, 60_000]);
    s.cfg.k = r.range(15, 25) as u32;
    s.cfg.queue_capacity = "2G".into();
    let nfiles = if s.cfg.single_file { 1 } else { s.gen.n_samples as usize };
    s.presentations = vec![crate::gen::fasta::Presentation::plain(); nfiles];
    s
}

/// A container file written by the real `Archive` writer: a few streams, a few large parts whose
/// bytes are random, zero-rich or directory-like (length-prefixed integers and NUL-terminated
/// names), i.e. payloads on which a misdirected directory parse can get far.
#[derive(Clone, Debug, Serialize, Deserialize)]
pub struct SynthSpec {
    pub seed: u64,
}

fn synth_archive(spec: &SynthSpec) -> Option<Vec<u8>> {
    use ragc_common::Archive;
    let mut r = Rng::new(spec.seed);
    let nstreams = r.range(1, 6) as usize;
    let mut plan: Vec<(String, Vec<(Vec<u8>, u64)>)> = Vec::new();
    let target = *r.pick(&[30_000usize, 60_000, 120_000, 250_000]);
    for i in 0..nstreams {
        let name = match r.below(4) { 0 => format!("x{i}d"), 1 => "params".to_string() + &"p".repeat(i), 2 => format!("stream-{i}"), _ => format!("s{i}") };
        let nparts = r.range(1, 4) as usize;
        let mut parts = Vec::new();
        for _ in 0..nparts {
            let len = r.range(1, (target / nstreams / nparts).max(2) as u64) as usize;
            let style = r.below(4);
            let mut d = Vec::with_capacity(len);
            while d.len() < len {
                match style {
                    0 => d.push(r.below(256) as u8),
                    1 => d.push(if r.pct(80) { 0 } else { r.below(256) as u8 }),
                    2 => {
                        // directory-like: small count, short names, small varints
                        d.push(1);
                        d.push(r.below(4) as u8);
                        for _ in 0..r.range(1, 6) { d.push(b'a' + r.below(26) as u8); }
                        d.push(0);
                        d.push(if r.pct(50) { 0 } else { 1 });
                        d.push(r.below(3) as u8);
                    }
                    _ => d.push(r.below(3) as u8),
                }
            }
            d.truncate(len);
            parts.push((d, *r.pick(&[0u64, 1, 255, 65_536, u64::MAX])));
        }
        plan.push((name, parts));
    }
    let world = ragc_common::verif::World::new();
    let (res, world) = crate::simrun::run_plain(world, move || -> bool {
        let mut a = Archive::new_writer();
        if a.open(crash::PATH).is_err() { return false; }
        for (name, parts) in &plan {
            let id = a.register_stream(name);
            for (d, m) in parts {
                if a.add_part(id, d, *m).is_err() { return false; }
            }
        }
        a.close().is_ok()
    });
    if res != Ok(true) { return None; }
    world.get_file(crash::PATH)
}

#[derive(Serialize, Deserialize)]
struct CrashSpec {
    source: PipeSpec,
    /// prefix lengths to judge; empty = all
    prefixes: Vec<u64>,
}

fn judge_archive(spec: &PipeSpec, bytes: &[u8], only: &[u64], index: u64, profile: &str, want_sample: bool) -> RunReport {
    judge_archive_with(&json!({"source": spec}), spec.gen.n_samples, bytes, only, index, profile, want_sample)
}

/// `source`: `{"source": PipeSpec}` or `{"synth": SynthSpec}` - what the replay file needs to
/// rebuild the archive.
fn judge_archive_with(source: &Value, n_samples: u32, bytes: &[u8], only: &[u64], index: u64, profile: &str, want_sample: bool) -> RunReport {
    let mut r = RunReport::default();
    let tag = format!("idx{index}");
    let mut first: Option<(String, String, u64)> = None;
    let mut counts = [0u64; 6];
    // longest prefix first: the sim-disk file is cut in place
    let all: Vec<u64> = if only.is_empty() { (0..bytes.len() as u64).rev().collect() } else { only.to_vec() };
    let arch_id = seed::fnv64(bytes);
    let mut judge = crash::PrefixJudge::new(bytes, &tag);
    for &n in &all {
        let res = judge.judge(n as usize);
        r.evaluations += 1;
        r.extra_digests.push(seed::fnv_mix(arch_id, n));
        r.max("max_io_calls_per_prefix", res.io_calls);
        r.max("max_alloc_request_per_prefix", res.max_alloc as u64);
        let mut verdicts = vec![("container", &res.container), ("reader", &res.reader)];
        if let Some(v) = &res.clone_of_live_handle {
            verdicts.push(("clone_for_thread", v));
            r.count("clone_of_live_handle_judged", 1);
        }
        for (which, v) in verdicts {
            let (slot, bad): (usize, Option<(&str, String)>) = match v {
                Verdict::Refused => (0, None),
                Verdict::Panic(p) => (1, Some(("panic", format!("{which} open panicked on prefix {n}/{}: {p}", bytes.len())))),
                Verdict::Hang(h) => (2, Some(("hang", format!("{which} open on prefix {n}/{}: {h}", bytes.len())))),
                Verdict::Readable(d) => (3, Some(("readable-prefix", format!("{which} open accepted prefix {n}/{}: {d}", bytes.len())))),
                Verdict::OpenOkNothingReadable => (4, None),
            };
            counts[slot] += 1;
            if let Some((c, d)) = bad {
                if first.is_none() {
                    first = Some((c.to_string(), d, n));
                }
            }
        }
    }
    r.count("prefix_opens_refused", counts[0]);
    r.count("prefix_opens_panicked", counts[1]);
    r.count("prefix_opens_hung", counts[2]);
    r.count("prefix_opens_readable", counts[3]);
    r.count("container_open_ok_on_prefix", counts[4]);
    r.count("archives", 1);
    r.count("archive_bytes", bytes.len() as u64);
    if bytes.len() > 65_536 {
        r.count("archives_over_64KiB", 1);
    }
    r.count(&format!("profile.{profile}.prefixes"), all.len() as u64);
    r.count("fault.crash_at", all.len() as u64);
    r.max("max_archive_len", bytes.len() as u64);
    r.nontrivial = false;
    if want_sample {
        r.sample = Some(json!({"index": index, "archive_len": bytes.len(), "samples": n_samples,
            "prefixes_judged": all.len(), "profile": profile,
            "example": "prefix n of the archive on the sim disk -> Archive::open (reader) and Decompressor::open must return Err"}));
    }
    if let Some((class, detail, n)) = first {
        // normalise panic locations out of the class; keep them in the detail
        r.violations.push(Violation {
            property: "C14".into(),
            class,
            detail: format!("[{profile} build] {detail}"),
            spec: {
                let mut v = source.clone();
                v["prefixes"] = json!([n]);
                v
            },
            engine: "crash-enum".into(),
            index,
            event_log_digest: seed::fnv_mix(arch_id, n),
        });
    }
    r
}

enum Kind { Small, Big, Synth }

fn kind_of(index: u64) -> Kind {
    // hashed, so that the expensive kinds spread evenly over the worker processes (run indices
    // are dealt round-robin)
    match (index.wrapping_mul(0x9E37_79B9_7F4A_7C15) >> 33) % 96 {
        0 => Kind::Big,
        1 | 2 => Kind::Synth,
        _ => Kind::Small,
    }
}

fn run_synth(sy: &SynthSpec, only: &[u64], index: u64, profile: &str) -> RunReport {
    let Some(bytes) = synth_archive(sy) else {
        let mut r = RunReport::default();
        r.evaluations = 1;
        r.count("source_create_failed", 1);
        return r;
    };
    // the judge wants a PipeSpec for the replay file; synthetic sources carry their own spec
    let mut r = judge_archive_with(&json!({"synth": sy}), bytes.len() as u32, &bytes, only, index, profile, false);
    r.count("synthetic_container_archives", 1);
    r
}

fn run(specs: Vec<(PipeSpec, Vec<u64>)>, indices: &[u64], profile: &str) -> Vec<RunReport> {
    let only_specs: Vec<PipeSpec> = specs.iter().map(|s| s.0.clone()).collect();
    let runs = pipeline::execute_batch(&only_specs);
    let mut out = Vec::new();
    for (((_, run), (spec, only)), &i) in runs.into_iter().zip(specs.iter()).zip(indices) {
        let ok = matches!(run.outcome, Outcome::Done) && matches!(run.create, Some(Ok(())));
        if !ok {
            let mut r = RunReport::default();
            r.evaluations = 1;
            r.count("source_create_failed", 1);
            out.push(r);
            continue;
        }
        let bytes = run.world.get_file(pipeline::ARCHIVE_PATH).unwrap_or_default();
        let mut r = judge_archive(spec, &bytes, only, i, profile, i < 2);
        // writer discipline assumed by "prefixes are exactly the crash states"
        r.count("writer_seeks", run.world.writer_seeks);
        r.count("non_append_writes", run.world.non_append_writes);
        if run.world.writer_seeks + run.world.non_append_writes > 0 {
            r.violations.push(Violation {
                property: "C14".into(),
                class: "writer-not-append-only".into(),
                detail: format!("archive writer issued {} seeks and {} non-append writes: prefixes are no longer the crash states", run.world.writer_seeks, run.world.non_append_writes),
                spec: serde_json::to_value(&CrashSpec { source: spec.clone(), prefixes: vec![] }).unwrap(),
                engine: "crash-enum".into(),
                index: i,
                event_log_digest: 0,
            });
        }
        out.push(r);
    }
    out
}

impl Prop for C14 {
    fn id(&self) -> &'static str { "C14" }
    fn engine(&self) -> &'static str { "crash-enum" }
    fn level(&self) -> &'static str { "fault_enumeration" }
    fn rule(&self) -> &'static str {
        "each evaluation = one crash point: a strict prefix (length n in 0..len-1, ALL n per archive) of an archive produced by a fault-free simulated create, placed on the sim disk and opened by Archive::open (reader) and Decompressor::open under catch_unwind with work counters and an allocation tripwire armed; verdict must be Err. Archives are sampled (seeded small workloads incl. >50 samples), prefixes per archive are enumerated completely, in both the fast and the overflow-checked build. distinct_nontrivial = distinct (archive digest, n) pairs."
    }
    fn runs(&self, tier: Tier) -> u64 {
        match tier { Tier::Quick => 7_000, Tier::Thorough => 200_000 }
    }
    fn profiles(&self) -> Vec<&'static str> { vec!["fast", "checked"] }
    fn run_chunk(&self, ctx: &Ctx, indices: &[u64]) -> Vec<RunReport> {
        // sub-scenarios by index: small pipeline archives (most), large pipeline archives with a
        // small directory, synthetic container files
        let mut out: Vec<(u64, RunReport)> = Vec::new();
        let mut pipe_idx = Vec::new();
        let mut pipe_specs = Vec::new();
        for &i in indices {
            let rs = seed::run_seed(ctx.base_seed ^ 0xC14, i);
            match kind_of(i) {
                Kind::Synth => out.push((i, run_synth(&SynthSpec { seed: rs }, &[], i, ctx.profile))),
                Kind::Big => { pipe_idx.push(i); pipe_specs.push((big_spec(rs), vec![])); }
                Kind::Small => { pipe_idx.push(i); pipe_specs.push((small_spec(rs), vec![])); }
            }
        }
        for (i, r) in pipe_idx.iter().zip(run(pipe_specs, &pipe_idx, ctx.profile)) {
            out.push((*i, r));
        }
        out.sort_by_key(|x| x.0);
        out.into_iter().map(|x| x.1).collect()
    }
    fn replay(&self, ctx: &Ctx, spec: &Value) -> RunReport {
        if let Some(idx) = spec["from_index"].as_u64() {
            let prefixes: Vec<u64> = spec["prefixes"].as_array().map(|a| a.iter().filter_map(|x| x.as_u64()).collect()).unwrap_or_default();
            let rs = seed::run_seed(ctx.base_seed ^ 0xC14, idx);
            return match kind_of(idx) {
                Kind::Synth => run_synth(&SynthSpec { seed: rs }, &prefixes, idx, ctx.profile),
                Kind::Big => run(vec![(big_spec(rs), prefixes)], &[idx], ctx.profile).pop().unwrap(),
                Kind::Small => run(vec![(small_spec(rs), prefixes)], &[idx], ctx.profile).pop().unwrap(),
            };
        }
        if spec.get("synth").is_some() {
            let sy: SynthSpec = serde_json::from_value(spec["synth"].clone()).expect("bad C14 synth spec");
            let prefixes: Vec<u64> = spec["prefixes"].as_array().map(|a| a.iter().filter_map(|x| x.as_u64()).collect()).unwrap_or_default();
            return run_synth(&sy, &prefixes, 0, ctx.profile);
        }
        let c: CrashSpec = serde_json::from_value(spec.clone()).expect("bad C14 spec");
        run(vec![(c.source, c.prefixes)], &[0], ctx.profile).pop().unwrap()
    }
    fn assumptions(&self) -> Vec<String> {
        vec![
            "crash model: ragc never seeks while writing and never syncs, so what a crash, kill or full disk leaves is a byte prefix of the stream handed to the OS (writer_seeks and non_append_writes are monitored and must be 0)".into(),
            "hang is decided by work counters (1e6 file calls or 64*len+1MiB bytes per open), garbage-sized buffers by an allocation tripwire at 16*len+1MiB".into(),
        ]
    }
    fn components_real(&self) -> Vec<&'static str> {
        vec!["ragc-common::Archive (open/deserialize)", "ragc-core::Decompressor::open, CollectionV3 metadata loading", "source archives: full create pipeline (engine A)"]
    }
    fn components_stub(&self) -> Vec<&'static str> {
        vec!["std::fs::File -> SimFile", "crash -> truncation of the written byte stream at every offset", "global allocator -> counting wrapper around System"]
    }
}
