//! C14 — a partially written archive is rejected cleanly (crash-point enumeration).

use super::{Ctx, Prop, Tier};
use crate::engines::crash::{self, Verdict};
use crate::engines::pipeline::{self, PipeSpec};
use crate::gen::genome::GenParams;
use crate::report::{RunReport, Violation};
use crate::sched::{Policy, SchedSpec};
use crate::seed::{self, Rng};
use crate::simrun::Outcome;
use serde::{Deserialize, Serialize};
use serde_json::{json, Value};

pub struct C14;

/// Small workloads (archives of ~0.3-20 KiB), a share of them with >50 samples so that the
/// metadata spans several batches.
pub fn small_spec(run_seed: u64) -> PipeSpec {
    let mut s = seed::streams(run_seed);
    let mut gen = GenParams::draw(&mut s.workload, &mut s.config);
    let r = &mut s.config;
    gen.n_samples = match r.below(10) {
        0..=5 => r.range(1, 4) as u32,
        6..=8 => r.range(5, 12) as u32,
        _ => r.range(51, 56) as u32,
    };
    gen.max_len = if gen.n_samples > 12 { 60 } else { *r.pick(&[60u32, 200, 600]) };
    gen.ref_contigs = r.range(1, 3) as u32;
    let mut cfg = pipeline::draw_cfg(r, &gen, false);
    cfg.threads = r.range(1, 2) as u32;
    cfg.compression_level = 1;
    cfg.bufwriter_cap = 4 << 20;
    let nfiles = if cfg.single_file { 1 } else { gen.n_samples as usize };
    let presentations = vec![crate::gen::fasta::Presentation::plain(); nfiles];
    PipeSpec {
        gen,
        cfg,
        faults: Default::default(),
        presentations,
        sched: SchedSpec { policy: Policy::Sticky { p: 950 }, seed: s.schedule.next() },
        hard: None,
        api: None,
    }
}

#[derive(Serialize, Deserialize)]
struct CrashSpec {
    source: PipeSpec,
    /// prefix lengths to judge; empty = all
    prefixes: Vec<u64>,
}

fn judge_archive(spec: &PipeSpec, bytes: &[u8], only: &[u64], index: u64, profile: &str, want_sample: bool) -> RunReport {
    let mut r = RunReport::default();
    let tag = format!("idx{index}");
    let mut first: Option<(String, String, u64)> = None;
    let mut counts = [0u64; 6];
    let all: Vec<u64> = if only.is_empty() { (0..bytes.len() as u64).collect() } else { only.to_vec() };
    let arch_id = seed::fnv64(bytes);
    for &n in &all {
        let res = crash::judge_prefix(bytes, n as usize, &tag);
        r.evaluations += 1;
        r.extra_digests.push(seed::fnv_mix(arch_id, n));
        r.max("max_io_calls_per_prefix", res.io_calls);
        r.max("max_alloc_request_per_prefix", res.max_alloc as u64);
        for (which, v) in [("container", &res.container), ("reader", &res.reader)] {
            let (slot, bad): (usize, Option<(&str, String)>) = match v {
                Verdict::Refused => (0, None),
                Verdict::Panic(p) => (1, Some(("panic", format!("{which} open panicked on prefix {n}/{}: {p}", bytes.len())))),
                Verdict::Hang(h) => (2, Some(("hang", format!("{which} open on prefix {n}/{}: {h}", bytes.len())))),
                Verdict::Readable(d) => (3, Some(("readable-prefix", format!("{which} open accepted prefix {n}/{}: {d}", bytes.len())))),
                Verdict::OpenOkNothingReadable => (4, None),
            };
            counts[slot] += 1;
            if let Some((c, d)) = bad {
                if first.is_none() {
                    first = Some((c.to_string(), d, n));
                }
            }
        }
    }
    r.count("prefix_opens_refused", counts[0]);
    r.count("prefix_opens_panicked", counts[1]);
    r.count("prefix_opens_hung", counts[2]);
    r.count("prefix_opens_readable", counts[3]);
    r.count("container_open_ok_on_prefix", counts[4]);
    r.count("archives", 1);
    r.count("archive_bytes", bytes.len() as u64);
    r.count(&format!("profile.{profile}.prefixes"), all.len() as u64);
    r.count("fault.crash_at", all.len() as u64);
    r.max("max_archive_len", bytes.len() as u64);
    r.nontrivial = false;
    if want_sample {
        r.sample = Some(json!({"index": index, "archive_len": bytes.len(), "samples": spec.gen.n_samples,
            "prefixes_judged": all.len(), "profile": profile,
            "example": "prefix n of the archive on the sim disk -> Archive::open (reader) and Decompressor::open must return Err"}));
    }
    if let Some((class, detail, n)) = first {
        // normalise panic locations out of the class; keep them in the detail
        r.violations.push(Violation {
            property: "C14".into(),
            class,
            detail: format!("[{profile} build] {detail}"),
            spec: serde_json::to_value(&CrashSpec { source: spec.clone(), prefixes: vec![n] }).unwrap(),
            engine: "crash-enum".into(),
            index,
            event_log_digest: seed::fnv_mix(arch_id, n),
        });
    }
    r
}

fn run(specs: Vec<(PipeSpec, Vec<u64>)>, indices: &[u64], profile: &str) -> Vec<RunReport> {
    let only_specs: Vec<PipeSpec> = specs.iter().map(|s| s.0.clone()).collect();
    let runs = pipeline::execute_batch(&only_specs);
    let mut out = Vec::new();
    for (((_, run), (spec, only)), &i) in runs.into_iter().zip(specs.iter()).zip(indices) {
        let ok = matches!(run.outcome, Outcome::Done) && matches!(run.create, Some(Ok(())));
        if !ok {
            let mut r = RunReport::default();
            r.evaluations = 1;
            r.count("source_create_failed", 1);
            out.push(r);
            continue;
        }
        let bytes = run.world.get_file(pipeline::ARCHIVE_PATH).unwrap_or_default();
        let mut r = judge_archive(spec, &bytes, only, i, profile, i < 2);
        // writer discipline assumed by "prefixes are exactly the crash states"
        r.count("writer_seeks", run.world.writer_seeks);
        r.count("non_append_writes", run.world.non_append_writes);
        if run.world.writer_seeks + run.world.non_append_writes > 0 {
            r.violations.push(Violation {
                property: "C14".into(),
                class: "writer-not-append-only".into(),
                detail: format!("archive writer issued {} seeks and {} non-append writes: prefixes are no longer the crash states", run.world.writer_seeks, run.world.non_append_writes),
                spec: serde_json::to_value(&CrashSpec { source: spec.clone(), prefixes: vec![] }).unwrap(),
                engine: "crash-enum".into(),
                index: i,
                event_log_digest: 0,
            });
        }
        out.push(r);
    }
    out
}

impl Prop for C14 {
    fn id(&self) -> &'static str { "C14" }
    fn engine(&self) -> &'static str { "crash-enum" }
    fn level(&self) -> &'static str { "fault_enumeration" }
    fn rule(&self) -> &'static str {
        "each evaluation = one crash point: a strict prefix (length n in 0..len-1, ALL n per archive) of an archive produced by a fault-free simulated create, placed on the sim disk and opened by Archive::open (reader) and Decompressor::open under catch_unwind with work counters and an allocation tripwire armed; verdict must be Err. Archives are sampled (seeded small workloads incl. >50 samples), prefixes per archive are enumerated completely, in both the fast and the overflow-checked build. distinct_nontrivial = distinct (archive digest, n) pairs."
    }
    fn runs(&self, tier: Tier) -> u64 {
        match tier { Tier::Quick => 12_000, Tier::Thorough => 400_000 }
    }
    fn profiles(&self) -> Vec<&'static str> { vec!["fast", "checked"] }
    fn run_chunk(&self, ctx: &Ctx, indices: &[u64]) -> Vec<RunReport> {
        let specs: Vec<(PipeSpec, Vec<u64>)> = indices.iter().map(|&i| (small_spec(seed::run_seed(ctx.base_seed ^ 0xC14, i)), vec![])).collect();
        run(specs, indices, ctx.profile)
    }
    fn replay(&self, ctx: &Ctx, spec: &Value) -> RunReport {
        if let Some(idx) = spec["from_index"].as_u64() {
            let prefixes: Vec<u64> = spec["prefixes"].as_array().map(|a| a.iter().filter_map(|x| x.as_u64()).collect()).unwrap_or_default();
            let s = small_spec(seed::run_seed(ctx.base_seed ^ 0xC14, idx));
            return run(vec![(s, prefixes)], &[idx], ctx.profile).pop().unwrap();
        }
        let c: CrashSpec = serde_json::from_value(spec.clone()).expect("bad C14 spec");
        run(vec![(c.source, c.prefixes)], &[0], ctx.profile).pop().unwrap()
    }
    fn assumptions(&self) -> Vec<String> {
        vec![
            "crash model: ragc never seeks while writing and never syncs, so what a crash, kill or full disk leaves is a byte prefix of the stream handed to the OS (writer_seeks and non_append_writes are monitored and must be 0)".into(),
            "hang is decided by work counters (1e6 file calls or 64*len+1MiB bytes per open), garbage-sized buffers by an allocation tripwire at 16*len+1MiB".into(),
        ]
    }
    fn components_real(&self) -> Vec<&'static str> {
        vec!["ragc-common::Archive (open/deserialize)", "ragc-core::Decompressor::open, CollectionV3 metadata loading", "source archives: full create pipeline (engine A)"]
    }
    fn components_stub(&self) -> Vec<&'static str> {
        vec!["std::fs::File -> SimFile", "crash -> truncation of the written byte stream at every offset", "global allocator -> counting wrapper around System"]
    }
}
