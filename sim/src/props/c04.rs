//! C04 — archive bytes depend only on inputs and parameters, not on threads or timing.
//! A "run" is a group: one workload + parameter set executed G times with different schedule
//! seeds, scheduler policies, worker counts, rayon pool sizes, queue capacities and benign faults.

use super::{Ctx, Prop, Tier};
use crate::engines::pipeline::{self, BenignFaults, PipeSpec};
use crate::report::{RunReport, Violation};
use crate::sched::{Policy, SchedSpec};
use crate::seed::{self, Rng};
use crate::simrun::Outcome;
use serde::{Deserialize, Serialize};
use serde_json::{json, Value};
use sha2::{Digest, Sha256};

pub struct C04;

#[derive(Clone, Debug, Serialize, Deserialize)]
pub struct GroupSpec {
    /// members share gen + every parameter the property calls a parameter
    pub members: Vec<PipeSpec>,
}

pub fn generate_group(run_seed: u64, g: usize) -> GroupSpec {
    let mut r = Rng::new(run_seed ^ 0x6409);
    // a fifth of the groups drive the library API (generated drain / sync_and_flush points,
    // which are part of the program, i.e. held fixed inside the group)
    let mut base = if r.pct(20) { pipeline::generate_api(run_seed, 0) } else { pipeline::generate(run_seed) };
    // bias towards the interesting mode: one PanSN file, frequent sync rounds
    if base.api.is_none() && r.pct(60) {
        base.gen.pansn = true;
        base.cfg.single_file = true;
        base.presentations.truncate(1);
        if r.pct(70) {
            base.cfg.pack_cardinality = *r.pick(&[2u32, 3, 5, 8]);
        }
    }
    let mut members = Vec::new();
    for i in 0..g {
        let mut m = base.clone();
        if i > 0 {
            m.cfg.threads = match r.below(8) {
                0 | 1 => 1,
                2 | 3 => 2,
                4..=6 => r.range(2, 8) as u32,
                _ => r.range(9, 16) as u32,
            };
            let floor = m.gen.max_len as u64 + 64;
            m.cfg.queue_capacity = if r.pct(50) { format!("{}", floor + r.below(3 * floor)) } else { "2G".into() };
            // the BufWriter capacity is a constant of the shipped code, not "threads or timing":
            // it is drawn per group (base spec) and held fixed inside it, so that a change which
            // makes the layout a function of that constant alone is not reported here
            let _ = r.pick(&[1u64, 64, 4096, 4 << 20]);
            m.faults = if r.pct(30) {
                BenignFaults { short_write_pct: 30, eintr_write_pct: 10, short_read_pct: 30, eintr_read_pct: 10, seed: r.next() }
            } else {
                BenignFaults::default()
            };
            let mut c2 = r.fork(i as u64);
            let mut s2 = r.fork(100 + i as u64);
            m.sched = SchedSpec::draw(&mut c2, &mut s2);
            // the simulated rayon pool (splitter discovery, final partial packs) is "threads" too;
            // own stream, so the other dimensions of existing run indices are unchanged
            m.cfg.rayon_pool = Rng::new(run_seed ^ 0x5241_594F ^ (i as u64) << 32).below(7) as u32;
        }
        members.push(m);
    }
    GroupSpec { members }
}

fn sha(bytes: &[u8]) -> String {
    let d = Sha256::digest(bytes);
    d.iter().map(|b| format!("{b:02x}")).collect()
}

fn judge_group(group: &GroupSpec, runs: Vec<(crate::gen::genome::Workload, pipeline::PipeRun)>, index: u64, want_sample: bool) -> RunReport {
    let mut r = RunReport::default();
    r.evaluations = 1;
    r.count("group_members", runs.len() as u64);
    let mut shas: Vec<Option<String>> = Vec::new();
    let mut lens = Vec::new();
    let mut batch_digests = Vec::new();
    let mut trace_mix = 0u64;
    let mut any_preempt = false;
    let mut explicit_members = Vec::new();
    let mut bytes_all: Vec<Option<Vec<u8>>> = Vec::new();
    for ((_, run), spec) in runs.iter().zip(group.members.iter()) {
        r.count("steps_total", run.steps);
        r.max("max_steps_seen", run.steps);
        r.count(&format!("sched.{}", spec.sched.name()), 1);
        r.count("sim_time_ms", run.world.clock_ms);
        for (k, v) in &run.world.fault_fired {
            r.count(&format!("fault.{k}"), *v);
        }
        trace_mix = trace_mix.rotate_left(9) ^ run.trace_digest;
        any_preempt |= run.preemptions > 0 && run.tasks >= 2;
        let mut e = spec.clone();
        e.sched = SchedSpec { policy: Policy::Replay { choices: run.choices.clone() }, seed: spec.sched.seed };
        explicit_members.push(e);
        let ok = matches!(run.outcome, Outcome::Done) && matches!(run.create, Some(Ok(())));
        if ok {
            let bytes = run.world.get_file(pipeline::ARCHIVE_PATH).unwrap_or_default();
            lens.push(bytes.len());
            shas.push(Some(sha(&bytes)));
            bytes_all.push(Some(bytes));
            match pipeline::check_rounds(&run.world.events, spec.cfg.threads) {
                Ok(st) => {
                    batch_digests.push(st.batch_digest);
                    r.count("sync_rounds", st.rounds);
                    r.count("probe.token_pulled_with_contigs_outstanding", st.token_with_contigs_queued);
                    r.count("probe.producer_blocked_full", st.producer_blocked);
                }
                Err(_) => batch_digests.push(0),
            }
        } else {
            shas.push(None);
            bytes_all.push(None);
            lens.push(0);
            batch_digests.push(0);
            r.count("member_not_ok", 1);
        }
    }
    r.count(if group.members[0].api.is_some() { "driver.library_api" } else if group.members[0].cfg.single_file { "mode.single_file" } else { "mode.multi_file" }, 1);
    let oks: Vec<&String> = shas.iter().flatten().collect();
    let mut distinct = oks.clone();
    distinct.sort();
    distinct.dedup();
    r.count("archives_compared", oks.len() as u64);
    let mut bd = batch_digests.clone();
    bd.sort();
    bd.dedup();
    r.count("probe.distinct_batch_compositions_beyond_first", bd.len().saturating_sub(1) as u64);
    r.digest = trace_mix;
    r.nontrivial = any_preempt && oks.len() >= 2;
    if want_sample {
        r.sample = Some(json!({"index": index, "gen": group.members[0].gen, "cfg0": group.members[0].cfg,
            "variants": group.members.iter().map(|m| json!({"threads": m.cfg.threads, "queue": m.cfg.queue_capacity,
                "bufwriter_cap": m.cfg.bufwriter_cap, "sched": m.sched.name()})).collect::<Vec<_>>(),
            "archive_sha256": shas}));
    }
    if distinct.len() > 1 {
        // first differing pair
        let a = shas.iter().position(|s| s.is_some()).unwrap();
        let b = shas.iter().position(|s| s.is_some() && s != &shas[a]).unwrap();
        let (ba, bb) = (bytes_all[a].as_ref().unwrap(), bytes_all[b].as_ref().unwrap());
        let first = ba.iter().zip(bb.iter()).position(|(x, y)| x != y).unwrap_or(ba.len().min(bb.len()));
        let detail = format!(
            "{} distinct archives among {} runs of the same inputs/parameters; members {a} (threads {}, {} bytes, batch digest {:x}) and {b} (threads {}, {} bytes, batch digest {:x}) differ first at byte {first}; mode={}",
            distinct.len(), oks.len(), group.members[a].cfg.threads, ba.len(), batch_digests[a],
            group.members[b].cfg.threads, bb.len(), batch_digests[b],
            if group.members[0].cfg.single_file { "single-file" } else { "multi-file" }
        );
        r.violations.push(Violation {
            property: "C04".into(),
            class: "archives-differ".into(),
            detail,
            spec: serde_json::to_value(&GroupSpec { members: vec![explicit_members[a].clone(), explicit_members[b].clone()] }).unwrap(),
            engine: "pipeline-sim".into(),
            index,
            event_log_digest: trace_mix,
        });
    }
    r
}

fn run_groups(groups: Vec<GroupSpec>, indices: &[u64]) -> Vec<RunReport> {
    let mut flat = Vec::new();
    for g in &groups {
        flat.extend(g.members.iter().cloned());
    }
    let mut runs = pipeline::execute_batch(&flat).into_iter();
    let mut out = Vec::new();
    for (g, &i) in groups.iter().zip(indices) {
        let mine: Vec<_> = (0..g.members.len()).map(|_| runs.next().unwrap()).collect();
        out.push(judge_group(g, mine, i, i < 2));
    }
    out
}

impl Prop for C04 {
    fn id(&self) -> &'static str { "C04" }
    fn engine(&self) -> &'static str { "pipeline-sim" }
    fn level(&self) -> &'static str { "exploration" }
    fn rule(&self) -> &'static str {
        "each evaluation = one group: one seeded workload and parameter set, created G times (G=3 quick, 6 thorough) under different schedule seeds and scheduler policies, worker counts 1..8, queue capacities, BufWriter capacities and benign I/O faults; oracle: all archives of a group are byte-identical (SHA-256 of the sim-disk file). distinct_nontrivial = distinct combined schedule-trace digests among groups with >=2 comparable archives and >=1 preemption."
    }
    fn runs(&self, tier: Tier) -> u64 {
        match tier { Tier::Quick => 12_000, Tier::Thorough => 250_000 }
    }
    fn run_chunk(&self, ctx: &Ctx, indices: &[u64]) -> Vec<RunReport> {
        let g = if ctx.tier == Tier::Quick { 3 } else { 6 };
        let mut out = Vec::new();
        // groups are G runs each: keep batches moderate
        for part in indices.chunks(64) {
            let groups: Vec<GroupSpec> = part.iter().map(|&i| generate_group(seed::run_seed(ctx.base_seed ^ 0xC04, i), g)).collect();
            out.extend(run_groups(groups, part));
        }
        out
    }
    fn replay(&self, _ctx: &Ctx, spec: &Value) -> RunReport {
        let g: GroupSpec = serde_json::from_value(spec.clone()).expect("bad C04 spec");
        run_groups(vec![g], &[0]).pop().unwrap()
    }
    fn shrink(&self, spec: &Value) -> Vec<Value> {
        let Ok(g) = serde_json::from_value::<GroupSpec>(spec.clone()) else { return vec![] };
        let mut out = Vec::new();
        // two differing archives are enough: every pair of members
        if g.members.len() > 2 {
            for i in 0..g.members.len() {
                for j in i + 1..g.members.len() {
                    let mut ng = g.clone();
                    ng.members = vec![g.members[i].clone(), g.members[j].clone()];
                    out.push(ng);
                }
            }
        }
        // workload reductions applied to every member (schedules fall back to seeded policies)
        let m0 = serde_json::to_value(&g.members[0]).unwrap();
        for cand in super::c01::shrink_pipe_public(&m0) {
            let Ok(c0) = serde_json::from_value::<PipeSpec>(cand) else { continue };
            if c0.gen == g.members[0].gen && c0.cfg == g.members[0].cfg {
                continue; // schedule-only / fault-only candidates handled per member below
            }
            let mut ng = g.clone();
            for m in ng.members.iter_mut() {
                let keep_threads = m.cfg.threads;
                let (q, b) = (m.cfg.queue_capacity.clone(), m.cfg.bufwriter_cap);
                m.gen = c0.gen.clone();
                m.cfg = c0.cfg.clone();
                m.cfg.threads = keep_threads.min(c0.cfg.threads.max(1)).max(1);
                if c0.cfg.threads == g.members[0].cfg.threads {
                    m.cfg.threads = keep_threads;
                }
                m.cfg.queue_capacity = q;
                m.cfg.bufwriter_cap = b;
                m.presentations = c0.presentations.clone();
                if matches!(m.sched.policy, Policy::Replay { .. }) {
                    m.sched.policy = Policy::Uniform;
                }
            }
            out.push(ng);
        }
        // per member: fewer workers, a schedule with few preemptions, a shorter explicit prefix
        for (i, m) in g.members.iter().enumerate() {
            if m.cfg.threads > 1 {
                let mut ng = g.clone();
                ng.members[i].cfg.threads = if m.cfg.threads > 2 { 2 } else { 1 };
                if matches!(ng.members[i].sched.policy, Policy::Replay { .. }) {
                    ng.members[i].sched.policy = Policy::Uniform;
                }
                out.push(ng);
            }
            if !matches!(m.sched.policy, Policy::Sticky { p: 995 }) {
                for d in 0..2u64 {
                    let mut ng = g.clone();
                    ng.members[i].sched = crate::sched::SchedSpec { policy: Policy::Sticky { p: 995 }, seed: m.sched.seed.wrapping_add(d) };
                    out.push(ng);
                }
            }
            if let Policy::Replay { choices } = &m.sched.policy {
                let mut n = choices.len();
                while n > 0 {
                    n /= 2;
                    let mut ng = g.clone();
                    ng.members[i].sched.policy = Policy::Replay { choices: choices[..n].to_vec() };
                    out.push(ng);
                }
            }
        }
        out.into_iter().map(|g| serde_json::to_value(&g).unwrap()).collect()
    }
    fn assumptions(&self) -> Vec<String> {
        vec![
            "parameters held fixed inside a group: k, segment size, min match, pack cardinality, compression level, fallback fraction, input mode, RAGC_SYNC_PER_SAMPLE, metadata zstd level".into(),
            "rayon's parallel maps (splitter discovery, final partial packs) run on 1..8 shuttle tasks of the harness's rayon shim (varied inside a group); rdst's radix sort keeps the real rayon pool (RAYON_NUM_THREADS=2) on plain integers".into(),
            "sequentially consistent executions only (shuttle)".into(),
        ]
    }
    fn components_real(&self) -> Vec<&'static str> { super::c01::REAL.to_vec() }
    fn components_stub(&self) -> Vec<&'static str> { super::c01::STUB.to_vec() }
}
