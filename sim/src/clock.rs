//! The process's sleep system calls behind the simulator's clock.
//!
//! ragc's two polling sleeps go through the `cfg(ragc_verif)` seam (`verif_sync::thread::sleep`),
//! but a sleep that a later change writes as a literal `std::thread::sleep(..)` would be a real
//! one: a retry loop with a back-off of a second turns a 30 s check into days and, worse, lets
//! wall-clock time into the run. Defining `nanosleep` / `clock_nanosleep` in the executable makes
//! the linker resolve std's calls to these definitions instead of libc's: inside the harness every
//! sleep advances the logical clock of the current run by the requested time, is counted as a
//! probe, and returns at once. (The harness itself never needs to sleep.)

use std::os::raw::c_int;

fn account(ms: u64) {
    ragc_common::verif::with(|w| {
        w.clock_ms += ms;
        *w.probes.entry("os_sleep_calls_intercepted").or_insert(0) += 1;
    });
}

#[no_mangle]
pub unsafe extern "C" fn nanosleep(req: *const libc::timespec, rem: *mut libc::timespec) -> c_int {
    if !req.is_null() {
        let r = &*req;
        account((r.tv_sec.max(0) as u64) * 1000 + (r.tv_nsec.max(0) as u64) / 1_000_000);
    }
    if !rem.is_null() {
        (*rem).tv_sec = 0;
        (*rem).tv_nsec = 0;
    }
    0
}

#[no_mangle]
pub unsafe extern "C" fn clock_nanosleep(clock: libc::clockid_t, flags: c_int, req: *const libc::timespec, rem: *mut libc::timespec) -> c_int {
    if !req.is_null() {
        let r = &*req;
        let mut ms = (r.tv_sec.max(0) as u64) * 1000 + (r.tv_nsec.max(0) as u64) / 1_000_000;
        if flags & libc::TIMER_ABSTIME != 0 {
            let mut now: libc::timespec = std::mem::zeroed();
            libc::clock_gettime(clock, &mut now);
            let now_ms = (now.tv_sec.max(0) as u64) * 1000 + (now.tv_nsec.max(0) as u64) / 1_000_000;
            ms = ms.saturating_sub(now_ms);
        }
        account(ms);
    }
    if !rem.is_null() {
        (*rem).tv_sec = 0;
        (*rem).tv_nsec = 0;
    }
    0
}
