//! Run one closure as a simulated execution: shuttle tasks under the harness's scheduler, a
//! private World (sim disk, fault plan, event log, logical clock) on this OS thread.

use crate::sched::{SchedSpec, SimScheduler, Trace};
use ragc_common::verif::{self, World};
use std::panic::{self, AssertUnwindSafe};
use std::sync::{Arc, Mutex};

#[derive(Debug, Clone, PartialEq)]
pub enum Outcome {
    /// closure returned
    Done,
    /// no runnable task; message lists the blocked tasks
    Deadlock(String),
    /// step budget exhausted
    MaxSteps(String),
    /// a task panicked
    Panic(String),
}

pub struct SimResult<T> {
    pub outcome: Outcome,
    pub value: Option<T>,
    pub world: World,
    pub trace: Trace,
}

fn task_id() -> u32 {
    ragc_core::verif_sync::task_id()
}

fn panic_message(p: Box<dyn std::any::Any + Send>) -> String {
    if let Some(s) = p.downcast_ref::<&str>() {
        s.to_string()
    } else if let Some(s) = p.downcast_ref::<String>() {
        s.clone()
    } else {
        "<non-string panic payload>".to_string()
    }
}

thread_local! {
    static LAST_PANIC_LOC: std::cell::RefCell<Option<String>> = const { std::cell::RefCell::new(None) };
}

/// Install a quiet panic hook once: panics are data here, not noise. The location of the most
/// recent panic on this thread is kept for reports.
pub fn install_quiet_panic_hook() {
    panic::set_hook(Box::new(|info| {
        let loc = info
            .location()
            .map(|l| format!("{}:{}", l.file(), l.line()))
            .unwrap_or_default();
        if std::env::var("VERIF_DEBUG").is_ok() {
            eprintln!("[panic] {info}");
        }
        LAST_PANIC_LOC.with(|c| {
            // keep the FIRST panic location of a run (later ones are usually consequences)
            let mut c = c.borrow_mut();
            if c.is_none() {
                *c = Some(loc);
            }
        });
    }));
}

pub fn take_panic_location() -> Option<String> {
    LAST_PANIC_LOC.with(|c| c.borrow_mut().take())
}

/// Execute `f` under the simulator. `f` runs as shuttle task 0 and may spawn tasks through the
/// hooked primitives. Exactly one execution is performed.
pub fn run_sim<T, F>(
    mut world: World,
    sched: &SchedSpec,
    max_steps: usize,
    stack_size: usize,
    f: F,
) -> SimResult<T>
where
    T: Send + 'static,
    F: Fn() -> T + Send + Sync + 'static,
{
    world.task_id = task_id;
    let prev = verif::install(world);
    assert!(prev.is_none(), "nested simulated runs are not supported");
    let _ = take_panic_location();

    let (scheduler, trace) = SimScheduler::new(sched);
    let mut config = shuttle::Config::new();
    config.stack_size = stack_size;
    config.failure_persistence = shuttle::FailurePersistence::None;
    config.max_steps = shuttle::MaxSteps::FailAfter(max_steps);
    config.silence_warnings = true;

    let slot: Arc<Mutex<Option<T>>> = Arc::new(Mutex::new(None));
    let slot2 = Arc::clone(&slot);
    let res = panic::catch_unwind(AssertUnwindSafe(|| {
        let runner = shuttle::Runner::new(scheduler, config);
        runner.run(move || {
            let v = f();
            *slot2.lock().unwrap() = Some(v);
        });
    }));
    let world = verif::uninstall().expect("world vanished");
    let trace = std::mem::take(&mut *trace.lock().unwrap());
    let outcome = match res {
        Ok(()) => Outcome::Done,
        Err(p) => {
            let msg = panic_message(p);
            if msg.starts_with("deadlock!") {
                Outcome::Deadlock(msg)
            } else if msg.starts_with("exceeded max_steps") || msg.starts_with("no task was scheduled") {
                Outcome::MaxSteps(format!("no progress event for {} scheduling steps (or step budget exhausted): {msg}", crate::sched::NO_PROGRESS_STEPS))
            } else {
                let loc = take_panic_location().unwrap_or_default();
                Outcome::Panic(format!("{msg} @ {loc}"))
            }
        }
    };
    let value = slot.lock().unwrap().take();
    let outcome = if trace.livelock {
        Outcome::MaxSteps(format!("livelock: no progress event for {} scheduling steps", crate::sched::NO_PROGRESS_STEPS))
    } else {
        outcome
    };
    SimResult {
        outcome,
        value,
        world,
        trace,
    }
}

/// Run `f` with a world installed but without a scheduler (single-task engines: container,
/// reader histories, crash enumeration). Panics are captured.
pub fn run_plain<T>(world: World, f: impl FnOnce() -> T) -> (Result<T, String>, World) {
    let prev = verif::install(world);
    assert!(prev.is_none());
    let _ = take_panic_location();
    let res = panic::catch_unwind(AssertUnwindSafe(f));
    let world = verif::uninstall().expect("world vanished");
    let res = res.map_err(|p| {
        let loc = take_panic_location().unwrap_or_default();
        format!("{} @ {}", panic_message(p), loc)
    });
    (res, world)
}

// ---------------------------------------------------------------------------------------------
// Batch execution: many simulated runs inside ONE shuttle Runner so that task stacks are pooled
// (creating a Runner per run costs an mmap/munmap per task and scales badly across processes).

use crate::sched::Policy;
use shuttle::scheduler::{Schedule, Scheduler, Task, TaskId};
use std::cell::RefCell;
use std::collections::VecDeque;
use std::rc::Rc;

pub struct Job<S> {
    pub spec: Arc<S>,
    pub world: World,
    pub sched: SchedSpec,
}

struct BatchState<S, T> {
    queue: VecDeque<(usize, Job<S>)>,
    /// index of the job being executed and its trace handle
    current: Option<(usize, Arc<Mutex<Trace>>)>,
    results: Vec<Option<SimResult<T>>>,
}

struct BatchScheduler<S, T> {
    st: Rc<RefCell<BatchState<S, T>>>,
    inner: Option<SimScheduler>,
    cur_spec: Arc<Mutex<Option<Arc<S>>>>,
    slot: Arc<Mutex<Option<T>>>,
}

fn finish_current<S, T>(st: &mut BatchState<S, T>, slot: &Arc<Mutex<Option<T>>>, outcome: Outcome) {
    if let Some((idx, trace)) = st.current.take() {
        let world = verif::uninstall().expect("world vanished");
        let trace = std::mem::take(&mut *trace.lock().unwrap());
        let value = slot.lock().unwrap().take();
        let outcome = if trace.livelock {
            Outcome::MaxSteps(format!(
                "livelock: no progress event (queue admit/take/close, token, barrier, contig, exit) for {} scheduling steps while tasks kept running (polling)",
                crate::sched::NO_PROGRESS_STEPS
            ))
        } else {
            outcome
        };
        st.results[idx] = Some(SimResult { outcome, value, world, trace });
    }
}

impl<S, T> Scheduler for BatchScheduler<S, T> {
    fn new_execution(&mut self) -> Option<Schedule> {
        let mut st = self.st.borrow_mut();
        // the previous execution (if any) ran to completion
        finish_current(&mut st, &self.slot, Outcome::Done);
        let (idx, job) = st.queue.pop_front()?;
        let mut world = job.world;
        world.task_id = task_id;
        let prev = verif::install(world);
        assert!(prev.is_none(), "nested simulated runs are not supported");
        let _ = take_panic_location();
        let (inner, trace) = SimScheduler::new(&job.sched);
        // SimScheduler hands out exactly one execution
        let mut inner = inner;
        let sch = inner.new_execution();
        self.inner = Some(inner);
        *self.cur_spec.lock().unwrap() = Some(job.spec);
        st.current = Some((idx, trace));
        sch
    }
    fn next_task(&mut self, runnable: &[&Task], current: Option<TaskId>, is_yielding: bool) -> Option<TaskId> {
        self.inner.as_mut().unwrap().next_task(runnable, current, is_yielding)
    }
    fn next_u64(&mut self) -> u64 {
        self.inner.as_mut().unwrap().next_u64()
    }
}

/// Execute every job as one simulated run; results are returned in job order.
pub fn run_batch<S, T, F>(jobs: Vec<Job<S>>, max_steps: usize, stack_size: usize, body: F) -> Vec<SimResult<T>>
where
    S: Send + Sync + 'static,
    T: Send + 'static,
    F: Fn(&S) -> T + Send + Sync + 'static,
{
    let n = jobs.len();
    let st = Rc::new(RefCell::new(BatchState {
        queue: jobs.into_iter().enumerate().collect(),
        current: None,
        results: (0..n).map(|_| None).collect(),
    }));
    let cur_spec: Arc<Mutex<Option<Arc<S>>>> = Arc::new(Mutex::new(None));
    let slot: Arc<Mutex<Option<T>>> = Arc::new(Mutex::new(None));
    let body = Arc::new(body);
    loop {
        if st.borrow().queue.is_empty() && st.borrow().current.is_none() {
            break;
        }
        let sched = BatchScheduler {
            st: Rc::clone(&st),
            inner: None,
            cur_spec: Arc::clone(&cur_spec),
            slot: Arc::clone(&slot),
        };
        let mut config = shuttle::Config::new();
        config.stack_size = stack_size;
        config.failure_persistence = shuttle::FailurePersistence::None;
        config.max_steps = shuttle::MaxSteps::FailAfter(max_steps);
        config.silence_warnings = true;
        let cs = Arc::clone(&cur_spec);
        let sl = Arc::clone(&slot);
        let b = Arc::clone(&body);
        let res = panic::catch_unwind(AssertUnwindSafe(|| {
            let runner = shuttle::Runner::new(sched, config);
            runner.run(move || {
                let spec = cs.lock().unwrap().clone().expect("no current spec");
                let v = b(&spec);
                *sl.lock().unwrap() = Some(v);
            });
        }));
        match res {
            Ok(()) => {
                // scheduler returned None: everything done (last execution already collected)
                let mut s = st.borrow_mut();
                finish_current(&mut s, &slot, Outcome::Done);
            }
            Err(p) => {
                let msg = panic_message(p);
                let outcome = if msg.starts_with("deadlock!") {
                    Outcome::Deadlock(msg)
                } else if msg.starts_with("exceeded max_steps") || msg.starts_with("no task was scheduled") {
                    Outcome::MaxSteps(format!("no progress event for {} scheduling steps (or step budget exhausted): {msg}", crate::sched::NO_PROGRESS_STEPS))
                } else {
                    let loc = take_panic_location().unwrap_or_default();
                    Outcome::Panic(format!("{msg} @ {loc}"))
                };
                let mut s = st.borrow_mut();
                finish_current(&mut s, &slot, outcome);
            }
        }
    }
    let mut st = st.borrow_mut();
    st.results.drain(..).map(|r| r.expect("job without result")).collect()
}
