//! agcref — an independent AGC v3 reader written from the format rules only (DESIGN Appendix A).
//! It shares no code with ragc: it links the `zstd` crate for raw zstd frames (the format's
//! codec) and nothing else. Besides decoding every sample it checks the addressing invariants a
//! C++ AGC reader relies on.

use std::collections::BTreeMap;

type R<T> = Result<T, String>;

fn err<T>(s: impl Into<String>) -> R<T> {
    Err(s.into())
}

// ---------------------------------------------------------------- container

/// length byte L followed by L big-endian bytes
fn varint(b: &[u8], pos: &mut usize) -> R<u64> {
    let l = *b.get(*pos).ok_or("varint: end of data")? as usize;
    *pos += 1;
    if l > 8 {
        return err(format!("varint: length byte {l} > 8"));
    }
    let mut v = 0u64;
    for _ in 0..l {
        let x = *b.get(*pos).ok_or("varint: end of data")?;
        *pos += 1;
        v = (v << 8) | x as u64;
    }
    Ok(v)
}

#[derive(Debug, Clone)]
pub struct Stream {
    pub name: String,
    pub raw_size: u64,
    pub parts: Vec<(u64, u64)>,
}

pub struct Container<'a> {
    pub bytes: &'a [u8],
    pub streams: Vec<Stream>,
}

impl<'a> Container<'a> {
    pub fn parse(bytes: &'a [u8]) -> R<Container<'a>> {
        if bytes.len() < 8 {
            return err("file shorter than the 8-byte directory length");
        }
        let n = bytes.len();
        let dl = u64::from_le_bytes(bytes[n - 8..].try_into().unwrap());
        if dl > (n - 8) as u64 {
            return err(format!("directory length {dl} exceeds file size {n}"));
        }
        let dir = &bytes[n - 8 - dl as usize..n - 8];
        let mut p = 0usize;
        let ns = varint(dir, &mut p)?;
        let mut streams = Vec::new();
        for _ in 0..ns {
            let end = dir[p..].iter().position(|&c| c == 0).ok_or("directory: unterminated stream name")?;
            let name = String::from_utf8_lossy(&dir[p..p + end]).to_string();
            p += end + 1;
            let np = varint(dir, &mut p)?;
            let raw_size = varint(dir, &mut p)?;
            let mut parts = Vec::new();
            for _ in 0..np {
                let off = varint(dir, &mut p)?;
                let size = varint(dir, &mut p)?;
                parts.push((off, size));
            }
            streams.push(Stream { name, raw_size, parts });
        }
        if p != dir.len() {
            return err(format!("directory: {} trailing bytes", dir.len() - p));
        }
        Ok(Container { bytes, streams })
    }

    pub fn stream(&self, name: &str) -> Option<usize> {
        self.streams.iter().position(|s| s.name == name)
    }

    /// (payload, metadata)
    pub fn part(&self, sid: usize, pid: usize) -> R<(&'a [u8], u64)> {
        let s = self.streams.get(sid).ok_or("no such stream")?;
        let &(off, size) = s.parts.get(pid).ok_or_else(|| format!("stream {}: no part {pid} (has {})", s.name, s.parts.len()))?;
        if size == 0 {
            return Ok((&[], 0));
        }
        let mut p = off as usize;
        if p >= self.bytes.len() {
            return err(format!("stream {} part {pid}: offset {off} beyond file", s.name));
        }
        let meta = varint(self.bytes, &mut p)?;
        let end = p.checked_add(size as usize).ok_or("part size overflow")?;
        if end > self.bytes.len() {
            return err(format!("stream {} part {pid}: payload runs past end of file", s.name));
        }
        Ok((&self.bytes[p..end], meta))
    }
}

// ---------------------------------------------------------------- codecs

fn unzstd(b: &[u8]) -> R<Vec<u8>> {
    zstd::decode_all(b).map_err(|e| format!("zstd: {e}"))
}

/// prefix varint of the collection streams
fn pv(b: &[u8], p: &mut usize) -> R<u32> {
    let f = *b.get(*p).ok_or("prefix varint: end of data")?;
    let need = if f & 0x80 == 0 {
        1
    } else if f & 0xC0 == 0x80 {
        2
    } else if f & 0xE0 == 0xC0 {
        3
    } else if f & 0xF0 == 0xE0 {
        4
    } else {
        5
    };
    if *p + need > b.len() {
        return err("prefix varint: truncated");
    }
    let x = &b[*p..*p + need];
    *p += need;
    let t1: u64 = 1 << 7;
    let t2: u64 = t1 + (1 << 14);
    let t3: u64 = t2 + (1 << 21);
    let t4: u64 = t3 + (1 << 28);
    let v: u64 = match need {
        1 => x[0] as u64,
        2 => (((x[0] & 0x3F) as u64) << 8 | x[1] as u64) + t1,
        3 => (((x[0] & 0x1F) as u64) << 16 | (x[1] as u64) << 8 | x[2] as u64) + t2,
        4 => (((x[0] & 0x0F) as u64) << 24 | (x[1] as u64) << 16 | (x[2] as u64) << 8 | x[3] as u64) + t3,
        _ => ((x[1] as u64) << 24 | (x[2] as u64) << 16 | (x[3] as u64) << 8 | x[4] as u64) + t4,
    };
    Ok(v as u32)
}

fn cstr<'a>(b: &'a [u8], p: &mut usize) -> R<&'a [u8]> {
    let end = b[*p..].iter().position(|&c| c == 0).ok_or("unterminated string")?;
    let s = &b[*p..*p + end];
    *p += end + 1;
    Ok(s)
}

fn zz_inv(v: u64, prev: u64) -> u64 {
    if v >= 2 * prev {
        v
    } else if v & 1 == 1 {
        (2 * prev - v) / 2
    } else {
        (v + 2 * prev) / 2
    }
}

/// payload of a segment-stream part -> bytes, per the metadata/marker convention
fn unpack_part(payload: &[u8], meta: u64, what: &str, issues: &mut Vec<String>) -> R<Vec<u8>> {
    if meta == 0 {
        return Ok(payload.to_vec());
    }
    if payload.is_empty() {
        return err(format!("{what}: metadata {meta} but empty payload"));
    }
    let marker = payload[payload.len() - 1];
    let frame = &payload[..payload.len() - 1];
    let raw = unzstd(frame).map_err(|e| format!("{what}: {e}"))?;
    let out = if marker == 0 {
        raw
    } else {
        if marker != 1 {
            issues.push(format!("{what}: marker byte {marker} (expected 0 or 1)"));
        }
        untuple(&raw).map_err(|e| format!("{what}: {e}"))?
    };
    if out.len() as u64 != meta {
        issues.push(format!("{what}: metadata says {meta} unpacked bytes, decoded {}", out.len()));
    }
    Ok(out)
}

fn untuple(t: &[u8]) -> R<Vec<u8>> {
    if t.is_empty() {
        return Ok(Vec::new());
    }
    let m = t[t.len() - 1];
    let w = (m >> 4) as usize;
    let rem = (m & 0xF) as usize;
    if w == 1 {
        return Ok(t[..t.len() - 1].to_vec());
    }
    let base: u32 = match w {
        2 => 16,
        3 => 6,
        4 => 4,
        _ => return err(format!("tuple marker {m:#x}: width {w}")),
    };
    if t.len() < 2 {
        return err("tuple data too short");
    }
    let full = t.len() - 2;
    let mut out = Vec::with_capacity(full * w + rem);
    for &c in &t[..full] {
        let mut c = c as u32;
        let mut tmp = [0u8; 4];
        for k in (0..w).rev() {
            tmp[k] = (c % base) as u8;
            c /= base;
        }
        out.extend_from_slice(&tmp[..w]);
    }
    if rem > 0 {
        let mut c = t[full] as u32;
        let mut tmp = [0u8; 4];
        for k in (0..rem).rev() {
            tmp[k] = (c % base) as u8;
            c /= base;
        }
        out.extend_from_slice(&tmp[..rem]);
    }
    Ok(out)
}

const B64: &[u8; 64] = b"0123456789ABCDEFGHIJKLMNOPQRSTUVWXYZabcdefghijklmnopqrstuvwxyz_#";

fn b64(mut n: u32) -> String {
    let mut s = String::new();
    loop {
        s.push(B64[(n & 63) as usize] as char);
        n >>= 6;
        if n == 0 {
            break;
        }
    }
    s
}

fn dec_int(t: &[u8], p: &mut usize) -> R<i64> {
    let mut neg = false;
    if t.get(*p) == Some(&b'-') {
        neg = true;
        *p += 1;
    }
    let s = *p;
    let mut v = 0i64;
    while *p < t.len() && t[*p].is_ascii_digit() {
        v = v * 10 + (t[*p] - b'0') as i64;
        *p += 1;
    }
    if *p == s {
        return err("LZ text: number expected");
    }
    Ok(if neg { -v } else { v })
}

/// LZ-diff V2 text over reference `r`
fn lz_decode(text: &[u8], r: &[u8], min_match: usize) -> R<Vec<u8>> {
    let mut out = Vec::new();
    let mut pred = 0usize;
    let mut p = 0usize;
    while p < text.len() {
        let c = text[p];
        if (b'A'..=b'A' + 20).contains(&c) {
            out.push(c - b'A');
            pred += 1;
            p += 1;
        } else if c == b'!' {
            out.push(*r.get(pred).ok_or("LZ text: '!' beyond reference")?);
            pred += 1;
            p += 1;
        } else if c == 30 {
            p += 1;
            let n = dec_int(text, &mut p)?;
            if text.get(p) != Some(&4) {
                return err("LZ text: N-run not terminated by code 4");
            }
            p += 1;
            out.extend(std::iter::repeat(4u8).take(n as usize + 4));
        } else {
            let d = dec_int(text, &mut p)?;
            let pos = pred as i64 + d;
            if pos < 0 {
                return err("LZ text: match before reference start");
            }
            let pos = pos as usize;
            let len = match text.get(p) {
                Some(b'.') => {
                    p += 1;
                    r.len().checked_sub(pos).ok_or("LZ text: match start beyond reference")?
                }
                Some(b',') => {
                    p += 1;
                    let l = dec_int(text, &mut p)?;
                    if text.get(p) != Some(&b'.') {
                        return err("LZ text: match not terminated by '.'");
                    }
                    p += 1;
                    l as usize + min_match
                }
                _ => return err("LZ text: ',' or '.' expected after match position"),
            };
            if pos + len > r.len() {
                return err(format!("LZ text: match [{pos},{}) beyond reference of {}", pos + len, r.len()));
            }
            out.extend_from_slice(&r[pos..pos + len]);
            pred = pos + len;
        }
    }
    Ok(out)
}

// ---------------------------------------------------------------- archive

#[derive(Debug, Clone, PartialEq)]
pub struct SegOut {
    pub group: u32,
    pub in_group: u32,
    pub rc: bool,
    pub raw_len: u32,
}

#[derive(Debug, Clone)]
pub struct ContigOut {
    pub name: String,
    pub segs: Vec<SegOut>,
    pub bases: Vec<u8>,
}

#[derive(Debug, Clone)]
pub struct SampleOut {
    pub name: String,
    pub contigs: Vec<ContigOut>,
}

pub struct Decoded {
    pub k: u32,
    pub min_match_len: u32,
    pub pack_cardinality: u32,
    pub segment_size: u32,
    pub samples: Vec<SampleOut>,
    /// violated conformance rules (empty = conforming)
    pub issues: Vec<String>,
    pub lz_groups: usize,
    pub raw_groups: usize,
    pub max_in_group_id: u32,
    pub packs_seen: usize,
    pub tuple_packed_refs: usize,
    pub raw_stored_parts: usize,
}

const PACK: usize = 50;

struct GroupCache<'a> {
    c: &'a Container<'a>,
    refs: BTreeMap<u32, Vec<u8>>,
    packs: BTreeMap<(u32, usize), Vec<Vec<u8>>>,
    issues: Vec<String>,
    tuple_refs: usize,
    raw_parts: usize,
}

impl<'a> GroupCache<'a> {
    fn entries(&mut self, g: u32, part: usize) -> R<&Vec<Vec<u8>>> {
        if !self.packs.contains_key(&(g, part)) {
            let name = format!("x{}d", b64(g));
            let sid = self.c.stream(&name).ok_or_else(|| format!("group {g}: stream {name} missing"))?;
            let (payload, meta) = self.c.part(sid, part)?;
            if meta == 0 {
                self.raw_parts += 1;
            }
            let data = unpack_part(payload, meta, &format!("{name} part {part}"), &mut self.issues)?;
            // entries are terminated by 0xFF
            let mut entries = Vec::new();
            let mut start = 0;
            for (i, &b) in data.iter().enumerate() {
                if b == 0xFF {
                    entries.push(data[start..i].to_vec());
                    start = i + 1;
                }
            }
            if start != data.len() {
                self.issues.push(format!("{name} part {part}: last entry not terminated by 0xFF"));
                entries.push(data[start..].to_vec());
            }
            let nparts = self.c.streams[sid].parts.len();
            if entries.len() > PACK || (part + 1 < nparts && entries.len() != PACK) {
                self.issues.push(format!("{name} part {part} of {nparts}: {} entries (packs hold exactly 50, the last one at most 50)", entries.len()));
            }
            self.packs.insert((g, part), entries);
        }
        Ok(self.packs.get(&(g, part)).unwrap())
    }

    fn reference(&mut self, g: u32) -> R<&Vec<u8>> {
        if !self.refs.contains_key(&g) {
            let name = format!("x{}r", b64(g));
            let sid = self.c.stream(&name).ok_or_else(|| format!("group {g}: stream {name} missing"))?;
            let np = self.c.streams[sid].parts.len();
            if np != 1 {
                self.issues.push(format!("{name}: {np} parts (an LZ group has exactly one reference part)"));
            }
            let (payload, meta) = self.c.part(sid, 0)?;
            if meta != 0 && payload.last() == Some(&1) {
                self.tuple_refs += 1;
            }
            if meta == 0 {
                self.raw_parts += 1;
            }
            let data = unpack_part(payload, meta, &name, &mut self.issues)?;
            self.refs.insert(g, data);
        }
        Ok(self.refs.get(&g).unwrap())
    }

    fn segment(&mut self, s: &SegOut, min_match: usize) -> R<Vec<u8>> {
        if s.group < 16 {
            let part = s.in_group as usize / PACK;
            let idx = s.in_group as usize % PACK;
            if s.in_group == 0 {
                self.issues.push(format!("raw group {}: id 0 is the placeholder entry and must not be referenced", s.group));
            }
            if part == 0 {
                let e0 = self.entries(s.group, 0)?.first().cloned();
                if e0.as_deref() != Some(&[0x7f][..]) {
                    self.issues.push(format!("raw group {}: entry 0 of pack 0 is {:?}, expected the 0x7f placeholder", s.group, e0.map(|e| e.len())));
                }
            }
            let e = self.entries(s.group, part)?;
            e.get(idx).cloned().ok_or_else(|| format!("raw group {} id {}: pack {part} has only {} entries", s.group, s.in_group, e.len()))
        } else if s.in_group == 0 {
            Ok(self.reference(s.group)?.clone())
        } else {
            let part = (s.in_group as usize - 1) / PACK;
            let idx = (s.in_group as usize - 1) % PACK;
            let text = {
                let e = self.entries(s.group, part)?;
                e.get(idx).cloned().ok_or_else(|| format!("group {} id {}: pack {part} has only {} entries", s.group, s.in_group, e.len()))?
            };
            let r = self.reference(s.group)?.clone();
            if text.is_empty() {
                return Ok(r);
            }
            lz_decode(&text, &r, min_match).map_err(|e| format!("group {} id {}: {e}", s.group, s.in_group))
        }
    }
}

pub fn decode(bytes: &[u8]) -> R<Decoded> {
    let c = Container::parse(bytes)?;
    let mut issues = Vec::new();
    for (i, want) in ["collection-samples", "collection-contigs", "collection-details"].iter().enumerate() {
        if c.streams.get(i).map(|s| s.name.as_str()) != Some(*want) {
            issues.push(format!("stream id {i} is {:?}, expected {want}", c.streams.get(i).map(|s| &s.name)));
        }
    }
    // file_type_info
    match c.stream("file_type_info") {
        None => issues.push("file_type_info stream missing".into()),
        Some(sid) => {
            let (p, _) = c.part(sid, 0)?;
            let fields: Vec<&[u8]> = p.split(|&b| b == 0).collect();
            let mut kv = BTreeMap::new();
            for ch in fields.chunks(2) {
                if ch.len() == 2 {
                    kv.insert(String::from_utf8_lossy(ch[0]).to_string(), String::from_utf8_lossy(ch[1]).to_string());
                }
            }
            if kv.get("file_version_major").map(|s| s.as_str()) != Some("3") || kv.get("file_version_minor").map(|s| s.as_str()) != Some("0") {
                issues.push(format!("file version {:?}.{:?}, expected 3.0", kv.get("file_version_major"), kv.get("file_version_minor")));
            }
        }
    }
    // params
    let psid = c.stream("params").ok_or("params stream missing")?;
    if c.streams[psid].parts.len() != 1 {
        issues.push(format!("params: {} parts", c.streams[psid].parts.len()));
    }
    let (pp, _) = c.part(psid, 0)?;
    if pp.len() < 16 {
        return err(format!("params: {} bytes", pp.len()));
    }
    let u = |i: usize| u32::from_le_bytes(pp[i * 4..i * 4 + 4].try_into().unwrap());
    let (k, min_match_len, pack_cardinality, segment_size) = (u(0), u(1), u(2), u(3));
    if pack_cardinality != 50 {
        issues.push(format!("params: pack cardinality {pack_cardinality}"));
    }
    // samples
    let ssid = c.stream("collection-samples").ok_or("collection-samples missing")?;
    let (sp, smeta) = c.part(ssid, 0)?;
    let sraw = unzstd(sp)?;
    if sraw.len() as u64 != smeta {
        issues.push(format!("collection-samples: metadata {smeta}, raw size {}", sraw.len()));
    }
    let mut p = 0;
    let ns = pv(&sraw, &mut p)? as usize;
    let mut names = Vec::new();
    for _ in 0..ns {
        names.push(String::from_utf8_lossy(cstr(&sraw, &mut p)?).to_string());
    }
    // contigs + details, batch by batch
    let csid = c.stream("collection-contigs").ok_or("collection-contigs missing")?;
    let dsid = c.stream("collection-details").ok_or("collection-details missing")?;
    let nb = c.streams[csid].parts.len();
    if c.streams[dsid].parts.len() != nb {
        issues.push(format!("{} contig batches but {} detail batches", nb, c.streams[dsid].parts.len()));
    }
    let mut samples: Vec<SampleOut> = Vec::new();
    let pred_len = (segment_size + k) as u64;
    for b in 0..nb {
        let (cp, cmeta) = c.part(csid, b)?;
        let craw = unzstd(cp)?;
        if craw.len() as u64 != cmeta {
            issues.push(format!("collection-contigs batch {b}: metadata {cmeta}, raw size {}", craw.len()));
        }
        let mut p = 0;
        let n_in_batch = pv(&craw, &mut p)? as usize;
        if b + 1 < nb && n_in_batch != 50 {
            issues.push(format!("metadata batch {b} holds {n_in_batch} samples (non-final batches hold 50)"));
        }
        let mut batch: Vec<SampleOut> = Vec::new();
        for i in 0..n_in_batch {
            let nc = pv(&craw, &mut p)? as usize;
            let sname = names.get(samples.len() + i).cloned().ok_or("more samples in contig batches than in the sample list")?;
            let mut contigs = Vec::new();
            let mut prev: Vec<Vec<u8>> = Vec::new();
            for _ in 0..nc {
                let enc = cstr(&craw, &mut p)?;
                let fields: Vec<&[u8]> = enc.split(|&c| c == b' ').collect();
                let cur: Vec<Vec<u8>> = if prev.is_empty() || fields.len() != prev.len() {
                    fields.iter().map(|f| f.to_vec()).collect()
                } else {
                    let mut cur = Vec::new();
                    for (f, pf) in fields.iter().zip(prev.iter()) {
                        if f.len() == 1 && f[0] == 0x81 {
                            cur.push(pf.clone());
                        } else {
                            let mut o = Vec::new();
                            let mut pos = 0usize;
                            for &ch in f.iter() {
                                if ch < 0x80 {
                                    o.push(ch);
                                    pos += 1;
                                } else {
                                    let cnt = 256 - ch as usize;
                                    if pos + cnt > pf.len() {
                                        return err(format!("contig name delta: run of {cnt} beyond previous field of {}", pf.len()));
                                    }
                                    o.extend_from_slice(&pf[pos..pos + cnt]);
                                    pos += cnt;
                                }
                            }
                            cur.push(o);
                        }
                    }
                    cur
                };
                let name = cur.iter().map(|f| String::from_utf8_lossy(f).to_string()).collect::<Vec<_>>().join(" ");
                prev = cur;
                contigs.push(ContigOut { name, segs: Vec::new(), bases: Vec::new() });
            }
            batch.push(SampleOut { name: sname, contigs });
        }
        // details
        let (dp, dmeta) = c.part(dsid, b)?;
        if dmeta != 0 {
            issues.push(format!("collection-details batch {b}: metadata {dmeta}, expected 0"));
        }
        let mut p = 0;
        let mut sizes = [(0u32, 0u32); 5];
        for s in sizes.iter_mut() {
            s.0 = pv(dp, &mut p)?;
            s.1 = pv(dp, &mut p)?;
        }
        let mut sub: Vec<Vec<u8>> = Vec::new();
        for s in sizes.iter() {
            let end = p + s.1 as usize;
            if end > dp.len() {
                return err("collection-details: sub-stream beyond part");
            }
            let raw = unzstd(&dp[p..end])?;
            if raw.len() != s.0 as usize {
                issues.push(format!("collection-details batch {b}: sub-stream raw size {} declared {}", raw.len(), s.0));
            }
            sub.push(raw);
            p = end;
        }
        let mut p0 = 0;
        let ns0 = pv(&sub[0], &mut p0)? as usize;
        if ns0 != n_in_batch {
            issues.push(format!("batch {b}: {n_in_batch} samples in names, {ns0} in details"));
        }
        let (mut p1, mut p2, mut p3, mut p4) = (0usize, 0usize, 0usize, 0usize);
        let mut pred: BTreeMap<u32, i64> = BTreeMap::new();
        for si in 0..ns0.min(batch.len()) {
            let nc = pv(&sub[0], &mut p0)? as usize;
            if nc != batch[si].contigs.len() {
                return err(format!("batch {b} sample {si}: {} contig names, {nc} contig descriptors", batch[si].contigs.len()));
            }
            for ci in 0..nc {
                let nseg = pv(&sub[0], &mut p0)? as usize;
                for _ in 0..nseg {
                    let g = pv(&sub[1], &mut p1)?;
                    let e = pv(&sub[2], &mut p2)? as u64;
                    let el = pv(&sub[3], &mut p3)? as u64;
                    let rc = pv(&sub[4], &mut p4)? != 0;
                    let pr = *pred.get(&g).unwrap_or(&-1);
                    let id: u64 = if pr == -1 {
                        e
                    } else if e == 0 {
                        0
                    } else if e == 1 {
                        (pr + 1) as u64
                    } else {
                        zz_inv(e - 1, (pr + 1) as u64)
                    };
                    if id as i64 > pr && id > 0 {
                        pred.insert(g, id as i64);
                    }
                    let raw_len = zz_inv(el, pred_len);
                    batch[si].contigs[ci].segs.push(SegOut { group: g, in_group: id as u32, rc, raw_len: raw_len as u32 });
                }
            }
        }
        samples.extend(batch);
    }
    if samples.len() != names.len() {
        issues.push(format!("{} samples listed, {} described in contig batches", names.len(), samples.len()));
    }
    // segments
    let mut gc = GroupCache { c: &c, refs: BTreeMap::new(), packs: BTreeMap::new(), issues: Vec::new(), tuple_refs: 0, raw_parts: 0 };
    let mut max_id = 0u32;
    let mut lz = std::collections::BTreeSet::new();
    let mut rawg = std::collections::BTreeSet::new();
    for s in samples.iter_mut() {
        for ct in s.contigs.iter_mut() {
            let mut bases = Vec::new();
            for (i, sg) in ct.segs.iter().enumerate() {
                max_id = max_id.max(sg.in_group);
                if sg.group < 16 {
                    rawg.insert(sg.group);
                } else {
                    lz.insert(sg.group);
                }
                let mut d = gc.segment(sg, min_match_len as usize).map_err(|e| format!("{}/{} segment {i}: {e}", s.name, ct.name))?;
                if d.len() as u32 != sg.raw_len {
                    gc.issues.push(format!("{}/{} segment {i}: descriptor raw length {} but the segment decodes to {} symbols", s.name, ct.name, sg.raw_len, d.len()));
                }
                if sg.rc {
                    d.reverse();
                    for x in d.iter_mut() {
                        if *x < 4 {
                            *x = 3 - *x;
                        }
                    }
                }
                if i == 0 {
                    bases.extend_from_slice(&d);
                } else {
                    if d.len() < k as usize {
                        return err(format!("{}/{} segment {i}: {} symbols, shorter than k={k}", s.name, ct.name, d.len()));
                    }
                    bases.extend_from_slice(&d[k as usize..]);
                }
            }
            ct.bases = bases;
        }
    }
    issues.extend(gc.issues.iter().cloned());
    let packs_seen = gc.packs.len();
    Ok(Decoded {
        k,
        min_match_len,
        pack_cardinality,
        segment_size,
        samples,
        issues,
        lz_groups: lz.len(),
        raw_groups: rawg.len(),
        max_in_group_id: max_id,
        packs_seen,
        tuple_packed_refs: gc.tuple_refs,
        raw_stored_parts: gc.raw_parts,
    })
}
