pub mod agcref;
