#!/bin/bash
# usage: eval_seeded.sh <patch.diff> <prop> [<prop> ...] [-- extra check args]
# Applies a seeded change to /repo, runs the quick checks of the given properties, reverts.
set -u
patch="$1"; shift
props=(); extra=()
while [ $# -gt 0 ]; do
  if [ "$1" = "--" ]; then shift; extra=("$@"); break; fi
  props+=("$1"); shift
done
cd /repo || exit 2
if ! git diff --quiet; then echo "repo dirty"; exit 2; fi
git apply "$patch" || { echo "patch does not apply"; exit 2; }
cd /verif
for p in "${props[@]}"; do
  out="$(./check "$p" quick "${extra[@]}" 2>&1 | grep -v "^Test deadlocked" | tail -4)"
  rc=$?
  echo "--- $p:"; echo "$out"
done
git -C /repo checkout -- .
git -C /repo status --short | head -3
