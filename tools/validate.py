#!/opt/veriftools/pyvenv/bin/python
import json, jsonschema, sys, glob
m = json.load(open('/verif/MANIFEST.json'))
jsonschema.validate(m, json.load(open('/root/.vp/MANIFEST.schema.json')))
es = json.load(open('/root/.vp/EVIDENCE.schema.json'))
for f in sorted(glob.glob('/verif/evidence/*.json')):
    jsonschema.validate(json.load(open(f)), es)
    print('ok', f)
ids = {c['property_id'] for c in m['checks']} | {n['property_id'] for n in m.get('not_applicable', [])}
props = [json.loads(l)['id'] for l in open('/verif/properties.jsonl')]
missing = [p for p in props if p not in ids]
print('manifest ok; unlisted properties:', missing)
