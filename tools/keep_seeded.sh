#!/bin/bash
# usage: keep_seeded.sh <worktree> <name> '<json: caught_by / what_i_ran>'
set -eu
wt="$1"; name="$2"; extra="$3"
dst=/verif/seeded/$name
mkdir -p "$dst"
cp "$wt/SEEDED/patch.diff" "$dst/patch.diff"
rm -rf "$dst/demo"; cp -r "$wt/SEEDED/demo" "$dst/demo"
python3 - "$wt/SEEDED/meta.json" "$dst/meta.json" "$extra" <<'PY'
import json,sys
m=json.load(open(sys.argv[1]))
m.update(json.loads(sys.argv[3]))
json.dump(m,open(sys.argv[2],'w'),indent=1)
PY
git -C /repo worktree remove --force "$wt"
echo "kept $dst; worktree removed"
