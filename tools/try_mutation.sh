#!/bin/bash
# usage: try_mutation.sh <prop> <file-in-repo> <python-expr old> <python-expr new> [extra check args]
# Applies a textual mutation to /repo (must apply exactly once), runs ./check <prop> quick, reverts.
set -u
prop="$1"; file="$2"; old="$3"; new="$4"; shift 4
cd /repo || exit 2
if ! git diff --quiet; then echo "repo dirty"; exit 2; fi
python3 - "$file" "$old" "$new" <<'PY' || { git checkout -- .; exit 2; }
import sys
p,old,new=sys.argv[1],sys.argv[2],sys.argv[3]
s=open(p).read()
n=s.count(old)
if n<1:
    print("pattern not found"); sys.exit(1)
s=s.replace(old,new,1)
open(p,'w').write(s)
PY
cd /verif && ./check "$prop" quick "$@" 2>&1 | tail -6
rc=${PIPESTATUS[0]}
git -C /repo checkout -- .
echo "mutation exit=$rc"
