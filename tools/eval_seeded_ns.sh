#!/bin/bash
# usage: eval_seeded_ns.sh <patch.diff> <prop> [<prop> ...] [-- extra check args]
# Like eval_seeded.sh but without touching /repo: the patch is applied to a scratch worktree of
# /repo (/tmp/evalrepo) which is bind-mounted over /repo inside a private mount namespace, and the
# checks run from a scratch worktree of /verif (/tmp/evalverif, own build output). Used while
# background runs that build from /repo are in flight.
set -u
patch="$1"; shift
props=(); extra=()
while [ $# -gt 0 ]; do
  if [ "$1" = "--" ]; then shift; extra=("$@"); break; fi
  props+=("$1"); shift
done
[ -d /tmp/evalrepo ] || git -C /repo worktree add -q /tmp/evalrepo HEAD
[ -d /tmp/evalverif ] || git -C /verif worktree add -q /tmp/evalverif HEAD
git -C /tmp/evalrepo checkout -q --detach "$(git -C /repo rev-parse HEAD)" 2>/dev/null
git -C /tmp/evalrepo checkout -- . ; git -C /tmp/evalrepo clean -fdq -e target
# the checks rewrite tracked evidence files in the scratch copy: discard them, or the checkout of a
# newer /verif commit is refused and a stale harness would be evaluated
git -C /tmp/evalverif checkout -q -- . 2>/dev/null
git -C /tmp/evalverif checkout -q --detach "$(git -C /verif rev-parse HEAD)" || { echo "cannot update /tmp/evalverif"; exit 2; }
[ "$(git -C /tmp/evalverif rev-parse HEAD)" = "$(git -C /verif rev-parse HEAD)" ] || { echo "/tmp/evalverif is not at /verif HEAD"; exit 2; }
git -C /tmp/evalrepo apply "$patch" || { echo "patch does not apply"; exit 2; }
for p in "${props[@]}"; do
  echo "--- $p:"
  unshare -m bash -c "mount --bind /tmp/evalrepo /repo && cd /tmp/evalverif && ./check $p quick ${extra[*]} 2>&1 | grep -v '^Test deadlocked' | tail -4"
done
git -C /tmp/evalrepo checkout -- .
