#!/bin/bash
# usage: confirm_seeded.sh <worktree>
# Confirms a sub-agent's seeded change in its scratch worktree, independently of what the agent said:
#   1. SEEDED/patch.diff equals the worktree's source diff (SEEDED/ and stray test copies excluded)
#   2. the unedited test suite passes with the patch
#   3. the demonstration fails with the patch
#   4. the demonstration passes without the patch (patch reverse-applied, then re-applied)
# Everything runs in a private mount namespace with its own /tmp (the suite writes hard-coded
# /tmp/test_*.agc files, so concurrent suites in other worktrees interfere otherwise).
set -u
wt="$(readlink -f "$1")"
[ -f "$wt/SEEDED/patch.diff" ] || { echo "no SEEDED/patch.diff"; exit 2; }
exec unshare -m bash -c '
wt="$1"
mkdir -p /mnt/wt && mount --bind "$wt" /mnt/wt && mount -t tmpfs tmpfs /tmp && mkdir -p "$wt" && mount --bind /mnt/wt "$wt" || { echo "namespace setup failed"; exit 2; }
cd "$wt" || exit 2
export CARGO_NET_OFFLINE=true
echo "== 1. patch vs worktree diff"
git diff -- . ":(exclude)SEEDED" > /tmp/now.diff
if diff -q <(grep -v "^index " /tmp/now.diff) <(grep -v "^index " SEEDED/patch.diff) >/dev/null; then echo "patch.diff == git diff"; else echo "patch.diff DIFFERS from git diff (continuing with patch.diff as the change)"; git status --short | head; fi
git diff --stat -- . ":(exclude)SEEDED" | tail -3
echo "== 2. test suite with the patch"
cargo test --workspace --no-fail-fast --offline > /tmp/suite.log 2>&1
echo "suite rc=$?  passed=$(grep -E "^test result" /tmp/suite.log | sed -E "s/.* ([0-9]+) passed.*/\1/" | paste -sd+ | bc)  failed=$(grep -E "^test result" /tmp/suite.log | sed -E "s/.* ([0-9]+) failed.*/\1/" | paste -sd+ | bc)"
grep -E "^test .* FAILED|panicked" /tmp/suite.log | head -5
echo "== 3. demo with the patch (must fail)"
if [ -x SEEDED/demo/run.sh ] || [ -f SEEDED/demo/run.sh ]; then
  bash SEEDED/demo/run.sh > /tmp/demo_with.log 2>&1; echo "demo rc=$? (with patch)"; grep -E "test result|panicked|FAILED|differs|VIOLAT" /tmp/demo_with.log | head -6
else echo "no run.sh"; fi
echo "== 4. demo without the patch (must pass)"
git apply -R SEEDED/patch.diff || { echo "reverse apply failed"; exit 2; }
bash SEEDED/demo/run.sh > /tmp/demo_without.log 2>&1; echo "demo rc=$? (without patch)"; grep -E "test result|panicked|FAILED" /tmp/demo_without.log | head -4
git apply SEEDED/patch.diff || echo "re-apply failed"
git status --short | grep -v SEEDED | head -5
' _ "$wt"
